"""C07 — every traversal mode enumerates exactly the slice of content it names."""
import random, itertools, importlib
from harness import common as H

PROP = "C07"
RULE = ("cases = (traversal op, fiber(s) of payload depth 0-1 incl. explicit defaults / empty sub-fibers, rank format C/U, "
        "declared shape, active range, free / tensor-owned, op arguments). small scope: every leaf fiber over 3 (quick) / 4 "
        "(thorough) coordinates x {absent, explicit default, value} x every (start, end) in {None, -1..n+1}^2 x every start_pos "
        "for iterRange / iterOccupancy / iterActive / __iter__; x every range x steps 1-3 x {plain, Ref} for shape iteration; "
        "pairs of fibers for the six dense co-iterators; x affine maps k in {+-1, +-2}, m in -3..3 x intervals x start_pos for "
        "project; x predicate masks x start_pos for prune; every lazy result is traversed twice and materialised with fromLazy. "
        "random: depth 1-2 trees, default 0 or 7, both formats, shapes, active ranges, k <= 3 co-iterated fibers, outer "
        "iterRange on lazy results. non-trivial = the slice / range / result is non-empty and the case exercises at least one of: "
        "a skipped empty element, a break at the end bound, an element below start, a positive start_pos, an absent coordinate "
        "filled by the default or inserted, an interval cut, a reversal, an uncompressed rank. multi-step cases (op seq): on the "
        "SAME fiber objects a first traversal or read-only call (getActive, getShape, ==, len, project, prune, isEmpty, &), then "
        "growth (append past the end, assignment through getPayloadRef), then a second traversal; every traversal is compared "
        "with the model and the spec on the trees as they are at that moment (the model has no hidden state); non-trivial = a "
        "traversal after growth or after a read-only call")

RANGE_OPS = ["range", "occ", "active", "iter"]
SHAPE_OPS = ["rshape", "shape", "ashape", "rshaperef", "shaperef", "ashaperef"]
CO_OPS = ["co" + o for o in SHAPE_OPS]
OLD_SAVED = 77
TOUCHES = ("getActive", "getShape", "eq", "len", "project", "prune", "isEmpty", "and", "iter", "iterActive", "iterShape",
           "iterActiveShape", "getPayload", "countValues")

_attrs = None


def _RankAttrs():
    global _attrs
    if _attrs is None:
        H.ft()
        _attrs = importlib.import_module("fibertree.core.rank_attrs").RankAttrs
    return _attrs


# ---------------------------------------------------------------------------------------
# generators
# ---------------------------------------------------------------------------------------

def _base(op, t, **kw):
    c = {"prop": PROP, "op": op, "d": 0, "dflt": 0, "t": t, "fmt": "C", "shape": None, "active": None,
         "kind": "free"}
    c.update(kw)
    return c


def _sps(t):
    return [None] + list(range(len(t)))


def gen_small(tier):
    n = 3 if tier == "quick" else 4
    fibs = list(H.all_leaf_fibers(n, [0, 1]))
    bounds = [None] + list(range(-1, n + 2))
    # occupancy / range / active / __iter__ with every start position
    for t in fibs:
        for s in bounds:
            for e in bounds:
                for sp in _sps(t):
                    yield _base("range", t, s=s, e=e, sp=sp, old=OLD_SAVED)
        for sp in _sps(t) + [len(t)]:          # len(t): the illegal position
            yield _base("occ", t, sp=sp, old=OLD_SAVED)
            for fmt in ("C", "U"):
                yield _base("iter", t, sp=sp, fmt=fmt, old=OLD_SAVED)
            for shape, active in ((None, None), (2, None), (0, None), (None, [1, 3]), (5, [0, 0]), (None, [2, n + 2])):
                yield _base("active", t, sp=sp, shape=shape, active=active, old=OLD_SAVED)
    # shape iteration, plain and Ref
    rb = list(range(-1, n + 2))
    for t in fibs:
        for s in rb:
            for e in rb:
                for step in (1, 2, 3):
                    if step > 1 and e <= s:
                        continue
                    yield _base("rshape", t, s=s, e=e, step=step)
                    yield _base("rshaperef", t, s=s, e=e, step=step)
        for shape, active in ((None, None), (2, None), (0, None), (5, None), (None, [1, 3]), (5, [0, 0]),
                              (None, [-1, 2]), (3, [2, n + 2])):
            for op in ("shape", "ashape", "shaperef", "ashaperef"):
                for fmt in ("C", "U"):
                    yield _base(op, t, shape=shape, active=active, fmt=fmt)
    # dense co-iteration: pairs (quick: over 2 coordinates, thorough: 3)
    m = 2 if tier == "quick" else 3
    cof = list(H.all_leaf_fibers(m, [0, 1]))
    for a in cof:
        for b in cof:
            for op in ("corshape", "corshaperef"):
                for (s, e, step) in ((-1, m + 1, 1), (0, m, 2), (1, 1, 1), (m, 0, 1)):
                    yield _base(op, None, ts=[a, b], s=s, e=e, step=step)
            for op in ("coshape", "coashape", "coshaperef", "coashaperef"):
                for shape, active in ((None, None), (m + 1, None), (None, [1, m + 1])):
                    yield _base(op, None, ts=[a, b], shape=shape, active=active)
    for a in fibs:
        for op in CO_OPS:
            yield _base(op, None, ts=[a], s=0, e=n, step=1)
    # project
    ms = (-2, 0, 3) if tier == "quick" else tuple(range(-3, 4))
    for t in fibs:
        for k in (1, 2, -1, -2):
            for mm in ms:
                tr = sorted(k * c + mm for c in range(n))
                ivs = [None, [tr[0], tr[-1] + 1], [tr[0] + 1, tr[-1]], [tr[1], tr[1] + 1], [tr[-1] + 1, tr[-1] + 3],
                       [tr[0] - 2, tr[0]], [tr[1], tr[1]]]
                if tier == "quick":
                    ivs = ivs[:4]
                for iv in ivs:
                    for sp in _sps(t):
                        if sp is not None and k < 0 and sp > 0:
                            continue           # reversed + start_pos is rejected whatever the position
                        yield _base("project", t, k=k, m=mm, iv=iv, sp=sp)
                for dflt in (7,):
                    t7 = [[c, (dflt if v == 0 else (0 if v == 1 else v))] for c, v in t]   # explicit default 7, value 0
                    yield _base("project", t7, k=k, m=mm, iv=None, sp=None, dflt=dflt)
    # prune: every predicate mask over the enumerated elements
    for t in fibs:
        for fmt in ("C", "U"):
            ln = len(t) if fmt == "C" else n
            for bits in itertools.product((0, 1, 2), repeat=min(ln, 3)):
                if tier == "quick" and 2 in bits and bits.count(2) > 1:
                    continue
                for sp in _sps(t):
                    yield _base("prune", t, fmt=fmt, pred={"kind": "imask", "bits": list(bits)}, sp=sp,
                                shape=(n if fmt == "U" else None))
            yield _base("prune", t, fmt=fmt, pred={"kind": "cmod", "a": 2, "b": 1}, sp=None)


def _rand_cfg(rng, n):
    shape = rng.choice([None, None, 0, n, n + 2, max(1, n - 2)])
    active = rng.choice([None, None, None, "r"])
    if active == "r":
        a = rng.randrange(-1, n + 1)
        active = [a, a + rng.randrange(0, n + 2)]
    return shape, active


def gen_random(seed, tier):
    rng = random.Random(seed)
    nrand = 6000 if tier == "quick" else 500000
    pool = (1, 2, -3, 7, 0)
    for i in range(nrand):
        d = rng.choice([0, 0, 1])
        dflt = rng.choice([0, 0, 7])
        n = rng.choice([3, 5, 8])
        kind = "owned" if d >= 1 or rng.random() < 0.4 else "free"
        fmt = rng.choice(["C", "C", "U"])
        shape, active = _rand_cfg(rng, n)
        if kind == "owned" and not shape:
            shape = n                      # tensors are built with a declared shape (see DESIGN, unowned guesses)
        t = H.gen_tree(rng, d + 1, n, pool, dflt)
        common = dict(d=d, dflt=dflt, fmt=fmt, shape=shape, active=active, kind=kind)
        fam = rng.choice(["range", "shape", "co", "project", "project", "prune"])
        rb = lambda: rng.randrange(-2, n + 3)
        ob = lambda: rng.choice([None, rng.randrange(-2, n + 3)])
        sp = rng.choice([None, None] + list(range(len(t)))) if t else rng.choice([None, None, 0])
        if fam == "range":
            op = rng.choice(RANGE_OPS)
            yield _base(op, t, s=ob(), e=ob(), sp=sp, old=OLD_SAVED, **common)
        elif fam == "shape":
            op = rng.choice(SHAPE_OPS)
            yield _base(op, t, s=rb(), e=rb(), step=rng.choice([1, 1, 2, 3, 4]), **common)
        elif fam == "co":
            op = rng.choice(CO_OPS)
            ts = [t] + [H.gen_tree(rng, d + 1, n, pool, dflt) for _ in range(rng.choice([0, 1, 1, 2]))]
            yield _base(op, None, ts=ts, s=rb(), e=rb(), step=rng.choice([1, 1, 2, 3]), **common)
        elif fam == "project":
            k = rng.choice([1, 1, 2, 3, -1, -1, -2])
            mm = rng.randrange(-4, 5)
            iv = None
            if rng.random() < 0.6:
                lo = k * rng.randrange(-1, n + 1) + mm + rng.choice([-1, 0, 1])
                iv = [lo, lo + rng.randrange(0, 2 * n)]
            if k < 0 and rng.random() < 0.9:
                sp = None
            os_, oe_ = (ob(), ob()) if rng.random() < 0.25 else (None, None)
            if os_ is not None:
                os_ = k * os_ + mm
            if oe_ is not None:
                oe_ = k * oe_ + mm
            yield _base("project", t, k=k, m=mm, iv=iv, sp=sp, os=os_, oe=oe_, **common)
        else:
            bits = [rng.choice([0, 1, 1, 2]) for _ in range(n + 3)]
            pred = rng.choice([{"kind": "imask", "bits": bits}, {"kind": "cmod", "a": rng.choice([2, 3]), "b": rng.choice([0, 1])},
                               {"kind": "cmodimask", "a": 2, "b": 0, "bits": bits}, {"kind": "all"}])
            os_, oe_ = (ob(), ob()) if rng.random() < 0.25 else (None, None)
            yield _base("prune", t, pred=pred, sp=sp, os=os_, oe=oe_, **common)


# ---------------------------------------------------------------------------------------
# widening: formats set through the rank attributes, estimated rank extents, fibers of a lower (ragged) rank,
# value kinds, boxed start positions, negative steps, lazy operands, state between traversals, wide coordinates
# ---------------------------------------------------------------------------------------
SUBPOOL = [[], [[0, 1]], [[1, 0], [3, 2]], [[0, 1], [4, 1]], [[2, 0]], [[1, 5], [2, 0], [6, 1]]]
WIDE = [8, 9, 10, 11, 99, 100, 101]
BETWEEN = [["getActive"], ["iter", "iterActiveShape"], ["eq", "len", "getShape"], ["project", "prune", "and"],
           ["getPayload", "countValues", "iterShape", "iterActive"]]


def _sub_case(op, root, idx, tshape, fmts, **kw):
    """traversal of the fiber stored at position idx of the top rank of a 2-rank tensor"""
    c = _base(op, root[idx][1], kind="owned", root=root, sub=idx, fmts=fmts, fmt=fmts[1], tshape=tshape, **kw)
    if tshape is None:
        c["sibs"] = [x[1] for x in root]
    else:
        c["shape"] = tshape[1]
    return c


def _root_case(op, t, d, tshape, fmts, **kw):
    """traversal of the root of a (d+1)-rank tensor whose extents are declared (tshape) or estimated (None)"""
    c = _base(op, t, d=d, kind="owned", fmts=fmts, fmt=fmts[0], tshape=tshape, **kw)
    if tshape is None:
        c["sibs"] = [t]
    else:
        c["shape"] = tshape[0]
    if d >= 1 and fmts[1] == "U":
        c["lowerU"] = True
    return c


def gen_wide_small(tier):
    n = 3
    fibs = list(H.all_leaf_fibers(n, [0, 1]))
    q = tier == "quick"
    some = fibs[::3] if q else fibs
    roots_pre = [[[0, a], [2, b]] for a in SUBPOOL for b in SUBPOOL][::3 if q else 1]
    # negative steps (descending dense traversal; Ref inserts at the sorted position all the same)
    for t in (fibs[::2] if q else fibs):
        for (s, e) in ((n, -1), (n + 1, 0), (1, 1), (0, 3), (2, -2)):
            for step in (-1, -2, -3):
                yield _base("rshape", t, s=s, e=e, step=step)
                yield _base("rshaperef", t, s=s, e=e, step=step)
    for a in some:
        for b in some[:5]:
            for op in ("corshape", "corshaperef"):
                yield _base(op, None, ts=[a, b], s=n, e=-1, step=-2)
    # format set on the fiber's own rank attributes after construction; estimated extent of an owned root
    for t in fibs:
        for shape in (None, 5):
            for op, kw in (("iter", {}), ("ashape", {}), ("prune", {"pred": {"kind": "all"}, "sp": None}),
                           ("project", {"k": 1, "m": 0, "iv": None, "sp": None}), ("coashape", {})):
                c = _base(op, None if op == "coashape" else t, fmt="U", fmtvia="setter", shape=shape, **kw)
                if op == "coashape":
                    c["ts"] = [t, [[1, 1]]]
                yield c
        for fmt in ("C", "U"):
            for op in ("shape", "ashape", "shaperef", "ashaperef", "active", "iter", "occ"):
                yield _root_case(op, t, 0, None, [fmt], sp=None, old=OLD_SAVED)
    # tensor-level entry points next to the fiber-level ones: `for c, p in tensor`, `reversed(tensor)`
    for t in fibs:
        for fmt in ("C", "U"):
            for tshape in (None, [4], [2]):
                for active in (None, [1, 3]):
                    for via in ("tensor", "fiber"):
                        yield _root_case("iter", t, 0, tshape, [fmt], sp=None, old=OLD_SAVED, via=via, active=active)
            for via in ("tensor", "fiber"):
                yield _root_case("reversed", t, 0, None, [fmt], via=via)
        yield _base("reversed", t)
    for root in roots_pre:
        for fmts in (["C", "C"], ["U", "C"], ["U", "U"], ["C", "U"]):
            for tshape in (None, [7, 8]):
                yield _root_case("iter", root, 1, tshape, fmts, sp=None, old=OLD_SAVED, via="tensor")
            yield _root_case("reversed", root, 1, None, fmts, via="tensor")
    # fibers of the second rank of a ragged 2-rank tensor, extents declared or estimated, every C/U mix
    roots = [[[0, a], [2, b]] for a in SUBPOOL for b in SUBPOOL] + \
            [[[0, a], [1, b], [5, c]] for a in SUBPOOL[:3] for b in SUBPOOL[3:] for c in SUBPOOL[1:4]]
    lazy_kw = {"project": {"k": 1, "m": 1, "iv": None, "sp": None}, "projectrev": {"k": -1, "m": 4, "iv": None, "sp": None},
               "prune": {"pred": {"kind": "cmod", "a": 2, "b": 0}, "sp": None}}
    k = 0
    for root in roots:
        for idx in range(len(root)):
            for tshape in (None, [7, 5], [7, 3]):
                for fmts in (["C", "C"], ["C", "U"], ["U", "C"], ["U", "U"]):
                    for op in ("shape", "ashape", "active", "iter", "shaperef", "ashaperef", "project", "projectrev", "prune"):
                        k += 1
                        if q and k % 7:
                            continue
                        if op in lazy_kw:
                            yield _sub_case(op.replace("rev", ""), root, idx, tshape, fmts, **lazy_kw[op])
                        else:
                            yield _sub_case(op, root, idx, tshape, fmts, sp=None, old=OLD_SAVED)
    # roots of 2-rank tensors with a C/U mix (materialisation copies sub-fibers of a U rank densely)
    for root in roots[::2 if q else 1]:
        for tshape in (None, [7, 8]):
            for fmts in (["C", "U"], ["U", "U"], ["U", "C"]):
                for op in ("project", "projectrev", "prune", "ashape", "shaperef", "iter", "active"):
                    k += 1
                    if q and k % 3:
                        continue
                    if op in lazy_kw:
                        yield _root_case(op.replace("rev", ""), root, 1, tshape, fmts, **lazy_kw[op])
                    else:
                        yield _root_case(op, root, 1, tshape, fmts, sp=None, old=OLD_SAVED)
    # the fibers carry default 0, the tensor default 7: the rank's default decides what is empty / stands in
    for t in H.all_leaf_fibers(n, [0, 7, 1]):
        k += 1
        if q and k % 2:
            continue
        for op, kw in (("occ", {"sp": None}), ("rshape", {"s": -1, "e": 4, "step": 1}), ("shaperef", {}),
                       ("project", {"k": -1, "m": 3, "iv": None, "sp": None}),
                       ("prune", {"pred": {"kind": "all"}, "sp": None})):
            yield _base(op, t, kind="owned", dflt=7, fdflt=0, shape=4, old=OLD_SAVED, **kw)
    # value kinds: float / string leaves and defaults (the model keeps the integer codes)
    for vk in ("float", "str"):
        for dflt, states in ((0, [0, 1]), (7, [7, 0])):
            for t in H.all_leaf_fibers(n, states):
                k += 1
                if q and k % 2:
                    continue
                for op, kw in (("occ", {"sp": None}), ("range", {"s": 1, "e": 3, "sp": None}),
                               ("rshape", {"s": -1, "e": 4, "step": 2}), ("rshaperef", {"s": 0, "e": 4, "step": 1}),
                               ("project", {"k": -1, "m": 3, "iv": [1, 4], "sp": None}),
                               ("prune", {"pred": {"kind": "imask", "bits": [1, 0, 1]}, "sp": None})):
                    yield _base(op, t, vk=vk, dflt=dflt, old=OLD_SAVED, **kw)
                yield _base("coshape", None, ts=[t, [[1, 1]]], vk=vk, dflt=dflt)
    # start positions boxed in a Payload
    for t in some:
        for sp in _sps(t):
            if sp is None:
                continue
            for op, kw in (("range", {"s": 1, "e": None}), ("occ", {}), ("active", {}), ("iter", {}),
                           ("project", {"k": 2, "m": 1, "iv": None}), ("prune", {"pred": {"kind": "all"}})):
                yield _base(op, t, sp=sp, spbox=True, old=OLD_SAVED, **kw)
    # lazy results: read-only calls between creation and the traversals, iterActive on the result, lazy operands
    chains = [[{"op": "project", "k": 1, "m": 1, "iv": None}], [{"op": "prune", "pred": {"kind": "imask", "bits": [0, 1, 1]}}],
              [{"op": "project", "k": -1, "m": 0, "iv": None}],
              [{"op": "project", "k": 2, "m": 0, "iv": [0, 9]}, {"op": "prune", "pred": {"kind": "cmod", "a": 4, "b": 0}}]]
    for t in fibs:
        for kk, mm in ((1, 0), (2, 3), (-1, 5)):
            for iv in (None, [kk * 1 + mm - (1 if kk > 0 else 0), kk * 1 + mm + 3]):
                k += 1
                if q and k % 2:
                    continue
                for btw in BETWEEN:
                    yield _base("project", t, k=kk, m=mm, iv=iv, sp=None, between=btw)
                for shape, active in ((None, None), (6, None), (None, [1, 3])):
                    yield _base("project", t, k=kk, m=mm, iv=iv, sp=None, oact=True, shape=shape, active=active)
                for ch in chains:
                    yield _base("project", t, k=kk, m=mm, iv=iv, sp=None, chain=ch)
        for btw in BETWEEN[:3]:
            yield _base("prune", t, pred={"kind": "imask", "bits": [1, 0, 1]}, sp=None, between=btw)
            yield _base("coashape", None, ts=[t, [[1, 1]]], between=btw)
        yield _base("prune", t, pred={"kind": "all"}, sp=None, oact=True, active=[1, 3])
        for ch in chains:
            yield _base("prune", t, pred={"kind": "cmod", "a": 2, "b": 0}, sp=None, chain=ch)
    # multi-digit coordinates (9 / 10 / 100: numeric, not textual, order)
    for bits in itertools.product((None, 0, 1), repeat=len(WIDE)):
        k += 1
        if k % (97 if q else 11):
            continue
        t = [[c, v] for c, v in zip(WIDE, bits) if v is not None]
        for op, kw in (("occ", {"sp": None}), ("range", {"s": 9, "e": 100, "sp": None}), ("range", {"s": 10, "e": 101, "sp": None}),
                       ("shape", {}), ("ashape", {}), ("shaperef", {"shape": 103}), ("rshape", {"s": 8, "e": 103, "step": 7}),
                       ("project", {"k": 1, "m": 1, "iv": [10, 101], "sp": None}), ("project", {"k": -1, "m": 109, "iv": None, "sp": None}),
                       ("prune", {"pred": {"kind": "cmod", "a": 10, "b": 0}, "sp": None}), ("iter", {"fmt": "U"})):
            yield _base(op, t, old=OLD_SAVED, **kw)
        yield _base("coashape", None, ts=[t, [[9, 1], [100, 1]]])


def gen_random_wide(seed, tier):
    """the widened dimensions combined at random"""
    rng = random.Random(seed * 104729 + 7)
    nrand = 5000 if tier == "quick" else 200000
    pool = (1, 2, -3, 7, 0)
    for _ in range(nrand):
        mode = rng.choice(["free", "root", "root", "sub", "sub"])
        dflt = rng.choice([0, 0, 7])
        n = rng.choice([3, 4, 6])
        vk = rng.choice(["int", "int", "float", "str"])
        d = 0 if mode == "free" else (rng.choice([0, 1, 1, 2]) if mode == "root" else rng.choice([0, 0, 1]))
        depth = d + 1 + (1 if mode == "sub" else 0)
        fmts = [rng.choice(["C", "C", "U"]) for _ in range(depth)]
        tshape = None if rng.random() < 0.5 else [n + rng.randrange(0, 3) for _ in range(depth)]
        active = None
        if rng.random() < 0.3:
            a = rng.randrange(-1, n + 1)
            active = [a, a + rng.randrange(0, n + 2)]
        extra = dict(d=d, dflt=dflt, active=active)
        if vk != "int":
            extra["vk"] = vk
        whole = H.gen_tree(rng, depth, n, pool, dflt)
        if mode == "sub" and not whole:
            mode = "root"
            d, depth = depth - 1, depth
            extra["d"] = d
        if mode == "free":
            t = whole
            extra.update(kind="free", fmt=fmts[0], shape=rng.choice([None, None, 0, n, n + 2]))
            if rng.random() < 0.5:
                extra["fmtvia"] = "setter"
            lvl = 0
        elif mode == "root":
            t = whole
            extra.update(kind="owned", fmt=fmts[0], fmts=fmts, tshape=tshape)
            if tshape is None:
                extra["sibs"] = [t]
            else:
                extra["shape"] = tshape[0]
            if rng.random() < 0.15 and d == 0:
                extra["fdflt"] = 0 if dflt else 7
            lvl = 0
        else:
            idx = rng.randrange(len(whole))
            t = whole[idx][1]
            extra.update(kind="owned", fmt=fmts[1], fmts=fmts, tshape=tshape, root=whole, sub=idx)
            if tshape is None:
                extra["sibs"] = [x[1] for x in whole]
            else:
                extra["shape"] = tshape[1]
            lvl = 1
        if any(f == "U" for f in fmts[lvl + 1:]):
            extra["lowerU"] = True
        rb = lambda: rng.randrange(-2, n + 3)
        ob = lambda: rng.choice([None, rng.randrange(-2, n + 3)])
        sp = rng.choice([None, None] + list(range(len(t)))) if t else rng.choice([None, None, 0])
        if sp is not None and rng.random() < 0.5:
            extra["spbox"] = True
        btw = [rng.choice(TOUCHES) for _ in range(rng.choice([1, 2, 3]))] if rng.random() < 0.4 else None
        fam = rng.choice(["range", "shape", "co", "project", "project", "prune"])
        if fam == "co" and mode == "sub":
            fam = "shape"
        if fam == "range":
            op = rng.choice(RANGE_OPS + ["reversed"])
            if mode == "root" and op in ("iter", "reversed") and rng.random() < 0.6:
                extra.pop("spbox", None)
                yield _base(op, t, sp=None, old=OLD_SAVED, via="tensor", **extra)
            else:
                yield _base(op, t, s=ob(), e=ob(), sp=sp, old=OLD_SAVED, **extra)
        elif fam == "shape":
            yield _base(rng.choice(SHAPE_OPS), t, s=rb(), e=rb(), step=rng.choice([1, 2, 3, -1, -1, -2, -3]), **extra)
        elif fam == "co":
            ts = [t] + [H.gen_tree(rng, d + 1, n, pool, dflt) for _ in range(rng.choice([0, 1, 2]))]
            if "sibs" in extra:
                extra["sibs"] = [t]
            extra.pop("spbox", None)
            c = _base(rng.choice(CO_OPS), None, ts=ts, s=rb(), e=rb(), step=rng.choice([1, 2, -1, -2]), **extra)
            if btw and d == 0:
                c["between"] = btw
            yield c
        else:
            kw = {}
            if fam == "project":
                k = rng.choice([1, 1, 2, 3, -1, -1, -2])
                mm = rng.randrange(-4, 5)
                iv = None
                if rng.random() < 0.5:
                    lo = k * rng.randrange(-1, n + 1) + mm + rng.choice([-1, 0, 1])
                    iv = [lo, lo + rng.randrange(0, 2 * n)]
                if k < 0 and rng.random() < 0.9:
                    sp = None
                kw = dict(k=k, m=mm, iv=iv)
            else:
                bits = [rng.choice([0, 1, 1, 2]) for _ in range(n + 3)]
                kw = dict(pred=rng.choice([{"kind": "imask", "bits": bits}, {"kind": "cmod", "a": 2, "b": rng.choice([0, 1])},
                                           {"kind": "all"}]))
            r = rng.random()
            if r < 0.2:
                kw["oact"] = True
            elif r < 0.45:
                ch = []
                for _ in range(rng.choice([1, 1, 2])):
                    if rng.random() < 0.6:
                        ch.append({"op": "project", "k": rng.choice([1, 1, 2, -1]), "m": rng.randrange(-2, 3),
                                   "iv": rng.choice([None, None, [rng.randrange(-3, 3), rng.randrange(3, 12)]])})
                    else:
                        ch.append({"op": "prune", "pred": {"kind": "imask", "bits": [rng.choice([0, 1, 1]) for _ in range(n + 3)]}})
                kw["chain"] = ch
            elif r < 0.6:
                kw["os"], kw["oe"] = ob(), ob()
            if btw and d == 0:
                kw["between"] = btw
            if sp is None:
                extra.pop("spbox", None)
            yield _base(fam, t, sp=sp, **kw, **extra)


# multi-step cases: the same fiber objects are traversed, read, grown and traversed again
SEQ_FIRST = [{"op": "active"}, {"op": "ashape"}, {"op": "shape"}, {"op": "occ"}, {"op": "iter"}, {"op": "coashape"},
             {"op": "ashaperef"}] + [{"op": "touch", "what": w} for w in TOUCHES]
SEQ_SECOND = [{"op": "active"}, {"op": "ashape"}, {"op": "ashaperef"}, {"op": "shape"}, {"op": "iter"},
              {"op": "coashape"}, {"op": "coashaperef"}, {"op": "occ"}, {"op": "range", "s": 0, "e": None},
              {"op": "project", "k": 1, "m": 0, "iv": None}, {"op": "prune", "pred": {"kind": "all"}}]


def _seq(t, steps, **kw):
    return _base("seq", t, steps=steps, others=kw.pop("others", []), **kw)


def gen_seq_small(tier):
    n = 3
    fibs = list(H.all_leaf_fibers(n, [0, 1]))
    if tier == "quick":
        fibs = fibs[::2]
    k = 0
    for t in fibs:
        last = t[-1][0] if t else -1
        grows = [[{"op": "append", "c": last + 2, "v": 4}],
                 [{"op": "refassign", "c": last + 3, "v": 5}],
                 [{"op": "refassign", "c": 1, "v": 6}, {"op": "append", "c": max(last, 1) + 1, "v": 0}],
                 []]
        for first in SEQ_FIRST:
            for grow in grows:
                for second in SEQ_SECOND:
                    k += 1
                    if tier == "quick" and k % 4:
                        continue
                    for fmt, shape in (("C", None), ("U", None), ("C", 2)):
                        if fmt == "U" and k % 2:
                            continue
                        if shape is not None and k % 5:
                            continue
                        yield _seq(t, [dict(first)] + [dict(g) for g in grow] + [dict(second)], fmt=fmt, shape=shape,
                                   others=[[[1, 3]]])


def gen_seq_random(seed, tier):
    rng = random.Random(seed * 7919 + 13)
    nrand = 1500 if tier == "quick" else 60000
    travs = SEQ_SECOND + [{"op": "rshape", "s": -1, "e": 7, "step": 2}, {"op": "corshape", "s": 0, "e": 6, "step": 1},
                          {"op": "shaperef"}, {"op": "coshape"}]
    for _ in range(nrand):
        dflt = rng.choice([0, 0, 7])
        n = rng.choice([2, 3, 5])
        t = H.gen_tree(rng, 1, n, (1, 2, -3, 7, 0), dflt)
        shape, active = _rand_cfg(rng, n)
        if rng.random() < 0.6:
            active = None
        fmt = rng.choice(["C", "C", "U"])
        steps = []
        top = t[-1][0] if t else -1
        for _ in range(rng.choice([2, 3, 4, 6])):
            r = rng.random()
            if r < 0.25:
                top += rng.choice([1, 1, 2, 3])
                steps.append({"op": "append", "c": top, "v": rng.choice([1, 2, dflt, 0])})
            elif r < 0.4:
                c = rng.randrange(-1, top + 4)
                top = max(top, c)
                steps.append({"op": "refassign", "c": c, "v": rng.choice([1, 2, dflt, 0])})
            elif r < 0.55:
                steps.append({"op": "touch", "what": rng.choice(TOUCHES)})
            else:
                st = dict(rng.choice(travs))
                if st["op"] in ("active", "occ", "range", "iter") and rng.random() < 0.2:
                    st["sp"] = 0
                steps.append(st)
        steps.append(dict(rng.choice(SEQ_SECOND)))
        others = [H.gen_tree(rng, 1, n, (1, 2, -3, 7, 0), dflt) for _ in range(rng.choice([0, 1, 2]))]
        yield _seq(t, steps, dflt=dflt, fmt=fmt, shape=shape, active=active, others=others)


def gen(seed, tier):
    yield from gen_small(tier)
    yield from gen_seq_small(tier)
    yield from gen_wide_small(tier)
    yield from gen_random(seed, tier)
    yield from gen_seq_random(seed, tier)
    yield from gen_random_wide(seed, tier)


# ---------------------------------------------------------------------------------------
# running the real code
# ---------------------------------------------------------------------------------------

def _enc(case, v):
    """value kinds: the traversal code only compares leaf values with the default, so the model keeps integers
    and the harness maps them injectively to floats / strings (and back in the observations)"""
    vk = case.get("vk", "int")
    if vk == "float":
        return v + 0.5
    if vk == "str":
        return "s%d" % v
    return v


def _dec(x):
    if isinstance(x, list):
        return [_dec(y) for y in x]
    if isinstance(x, dict) and "float" in x:
        return int(float.fromhex(x["float"]) - 0.5)
    if isinstance(x, str) and x[:1] == "s":
        return int(x[1:])
    return x


def _snap(case, obj):
    s = H.snapshot(obj)
    return _dec(s) if case.get("vk", "int") != "int" else s


def _mk(case, tree, depth, dflt):
    """real Fiber objects through the public constructor, leaf values encoded"""
    F = H.ft().Fiber
    if depth == 1:
        return F([c for c, _ in tree], [_enc(case, v) for _, v in tree], default=dflt)
    return F([c for c, _ in tree], [_mk(case, sub, depth - 1, dflt) for _, sub in tree], default=dflt)


def _build(case, tree):
    """the fiber under test, configured as the case says (format, declared / estimated extents, active range, owner,
    target = the root or a fiber of the second rank)"""
    ft = H.ft()
    d, dflt = case["d"], _enc(case, case["dflt"])
    shape, active, fmt = case.get("shape"), case.get("active"), case.get("fmt", "C")
    act = tuple(active) if active is not None else None
    if case.get("kind") == "owned":
        sub = case.get("sub")
        depth = d + 1 + (1 if sub is not None else 0)
        whole = case["root"] if sub is not None else tree
        # the fibers may carry their own default, different from the tensor's: the rank's wins
        f = _mk(case, whole, depth, _enc(case, case["fdflt"]) if "fdflt" in case else dflt)
        ids = [f"R{depth - 1 - i}" for i in range(depth)]
        if "tshape" in case:
            shp = case["tshape"]            # None: every rank extent is estimated
        else:
            shp = [shape] + [64] * (depth - 1)
        t = ft.Tensor.fromFiber(rank_ids=ids, fiber=f, shape=shp, default=dflt)
        fmts = case.get("fmts") or ([fmt] + ["C"] * (depth - 1))
        for rid, fm in zip(ids, fmts):
            if fm != "C":
                t.setFormat(rid, fm)
        target = t.getRoot()
        if sub is not None:
            target = target.payloads[sub]
        target.setActive(act)
        _TENSOR[id(target)] = t
        return target, t
    F = ft.Fiber
    coords = [c for c, _ in tree]
    if d == 0:
        payloads = [_enc(case, v) for _, v in tree]
    else:
        payloads = [_mk(case, s, d, dflt) for _, s in tree]
    if case.get("fmtvia") == "setter":
        f = F(coords, payloads, default=dflt, shape=shape, active_range=act)
        f.getRankAttrs().setFormat(fmt)
    else:
        f = F(coords, payloads, default=dflt, shape=shape, rank_attrs=_RankAttrs()(fmt=fmt), active_range=act)
    return f, None


_TENSOR = {}     # id(root fiber) -> its Tensor, for the tensor-level entry points (`for c, p in tensor`)


def _entry(case, f):
    """the object the traversal is started from: the fiber, or the Tensor that forwards to its root"""
    if case.get("via") == "tensor":
        t = _TENSOR[id(f)]
        assert t.getRoot() is f
        return t
    return f


def _rows(case, fiber, ys):
    return [[c, H.pos_of(fiber.payloads, p), _snap(case, p)] for c, p in ys]


def _objs(x, acc=None):
    """ids of every Payload / Fiber object reachable from a fiber"""
    acc = set() if acc is None else acc
    F = H.ft().Fiber
    if isinstance(x, F):
        acc.add(id(x))
        for p in x.payloads:
            _objs(p, acc)
    else:
        acc.add(id(x))
    return acc


def _distinct(objs):
    return len({id(o) for o in objs}) == len(objs)


def _pairs(it):
    out = []
    for c, p in it:
        out.append((c, p))
    return out


def _pred(spec):
    kind = spec["kind"]
    bits = spec.get("bits", [])
    tri = {0: False, 1: True, 2: None}

    def mask(i):
        return tri[bits[i]] if i < len(bits) else False
    if kind == "imask":
        return lambda i, c, p: mask(i)
    if kind == "cmod":
        return lambda i, c, p: c % spec["a"] == spec["b"]
    if kind == "cmodimask":
        return lambda i, c, p: (c % spec["a"] == spec["b"]) or bool(mask(i))
    if kind == "all":
        return lambda i, c, p: True
    raise ValueError(kind)


def _and(side, key, val):
    side[key] = side.get(key, True) and bool(val)


def _fresh_absent(side, fibers_objs, pairs):
    """what stands in for an absent coordinate must be a fresh object: not stored in an operand, and pairwise
    distinct (a shared placeholder would leak one caller's update into the next yield)"""
    absent = [p for p in pairs if id(p) not in fibers_objs]
    _and(side, "absent_payloads_fresh_and_distinct", _distinct(absent))


def _traverse(case, op, fibers, side):
    """one traversal `op` (arguments in `case`) on already built fibers; returns the observation dict"""
    ft = H.ft()
    f = fibers[0]
    impl = {}
    sp = case.get("sp")
    spa = ft.Payload(sp) if (sp is not None and case.get("spbox")) else sp
    try:
        if op in RANGE_OPS:
            f.setSavedPos(case.get("old", 0))
            if op == "range":
                it = f.iterRange(case.get("s"), case.get("e"), start_pos=spa)
            elif op == "occ":
                it = f.iterOccupancy(start_pos=spa)
            elif op == "active":
                it = f.iterActive(start_pos=spa)
            elif case.get("via") == "tensor":
                it = iter(_entry(case, f))          # Tensor.__iter__ takes no start position
            else:
                it = f.__iter__(start_pos=spa)
            ys = _pairs(it)
            impl["y1"] = _rows(case, f, ys)
            impl["saved"] = ft.Payload.get(f.getSavedPos())
            _fresh_absent(side, _objs(f), [p for _, p in ys])
        elif op == "reversed":
            ys = _pairs(reversed(_entry(case, f)))
            impl["y1"] = _rows(case, f, ys)
        elif op in SHAPE_OPS:
            s, e, step = case.get("s"), case.get("e"), case.get("step", 1)
            it = {"rshape": lambda: f.iterRangeShape(s, e, step), "shape": f.iterShape, "ashape": f.iterActiveShape,
                  "rshaperef": lambda: f.iterRangeShapeRef(s, e, step), "shaperef": f.iterShapeRef,
                  "ashaperef": f.iterActiveShapeRef}[op]()
            ys = _pairs(it)
            impl["y1"] = _rows(case, f, ys)
            if op.endswith("ref"):
                _and(side, "stored_payloads_distinct_objects", _distinct(list(f.payloads)))
            else:
                _fresh_absent(side, _objs(f), [p for _, p in ys])
        elif op in CO_OPS:
            s, e, step = case.get("s"), case.get("e"), case.get("step", 1)
            F = ft.Fiber
            lz = {"corshape": lambda: F.coiterRangeShape(fibers, s, e, step), "coshape": lambda: F.coiterShape(fibers),
                  "coashape": lambda: F.coiterActiveShape(fibers),
                  "corshaperef": lambda: F.coiterRangeShapeRef(fibers, s, e, step),
                  "coshaperef": lambda: F.coiterShapeRef(fibers), "coashaperef": lambda: F.coiterActiveShapeRef(fibers)}[op]()
            for w in case.get("between", []):
                _touch(w, f, case)
            y1 = _pairs(lz)
            for w in case.get("between", []):
                _touch(w, f, case)
            y2 = _pairs(lz)
            for key, ys in (("y1", y1), ("y2", y2)):
                impl[key] = [[c, [[H.pos_of(fb.payloads, p), _snap(case, p)] for fb, p in zip(fibers, ps)]] for c, ps in ys]
            same = len(y1) == len(y2) and all(
                c1 == c2 and all(a is b for a, b in zip(p1, p2)) for (c1, p1), (c2, p2) in zip(y1, y2)) \
                if op.endswith("ref") else True
            _and(side, "second_traversal_same_objects", same)
            stored = set()
            for fb in fibers:
                _objs(fb, stored)
            if op.endswith("ref"):
                for fb in fibers:
                    _and(side, "stored_payloads_distinct_objects", _distinct(list(fb.payloads)))
            else:
                _fresh_absent(side, stored, [p for _, ps in y1 + y2 for p in ps])
        elif op in ("project", "prune"):
            def stage(src, st, spx):
                if st["op"] == "project":
                    k, m = st["k"], st["m"]
                    iv = tuple(st["iv"]) if st.get("iv") is not None else None
                    return src.project(trans_fn=lambda c: k * c + m, interval=iv, start_pos=spx)
                return src.prune(trans_fn=_pred(st["pred"]), start_pos=spx)
            lz = stage(f, dict(case, op=op), spa)
            for st in case.get("chain", []):          # lazy fibers as operands of project / prune
                lz = stage(lz, st, None)
            os_, oe_ = case.get("os"), case.get("oe")
            plain = os_ is None and oe_ is None and not case.get("oact")
            if case.get("oact"):
                impl["act"] = list(lz.getActive())
                trav = lambda: lz.iterActive()
            elif plain:
                trav = lambda: lz
            else:
                trav = lambda: lz.iterRange(os_, oe_)
            for w in case.get("between", []):
                _touch(w, f, case)
            y1 = _pairs(trav())
            for w in case.get("between", []):
                _touch(w, f, case)
            y2 = _pairs(trav())
            impl["y1"] = _rows(case, f, y1)
            impl["y2"] = _rows(case, f, y2)
            if plain:
                mat = ft.Fiber.fromLazy(lz)
                impl["mat"] = _snap(case, mat)
                eager = ft.Fiber([c for c, _ in y1], [p for _, p in y1], default=_enc(case, case["dflt"]))
                if not case.get("lowerU"):
                    # (`==` between a fiber of a "U" rank and an unowned copy is format-sensitive: the U side
                    # presents its explicit defaults to the union; that is C12's subject, the content is compared in Lean)
                    _and(side, "materialises_equal", mat == eager)
                _and(side, "materialised_shares_nothing_with_source", not (_objs(mat) & _objs(f)))
            _and(side, "lazy_is_lazy", lz.isLazy())
        else:
            raise ValueError(op)
    except AssertionError:
        impl["err"] = "rejected"
    except (Exception, StopIteration) as e:  # a crash is an observation
        impl["err"] = H.err_class(e)
    return impl


def _touch(what, f, case):
    """a read-only public call whose result is not under test here: it must leave no trace"""
    ft = H.ft()
    dflt = _enc(case, case["dflt"])
    if what == "getActive":
        f.getActive()
    elif what == "getShape":
        f.getShape(all_ranks=False)
    elif what == "eq":
        f == f
    elif what == "len":
        len(f)
    elif what == "project":
        list(f.project(lambda c: c + 1))
    elif what == "prune":
        list(f.prune(lambda i, c, p: True))
    elif what == "isEmpty":
        f.isEmpty()
    elif what == "and":
        list(f & ft.Fiber(list(f.coords), [1 for _ in f.coords]))
    elif what == "iter":
        list(f)
    elif what == "iterActive":
        list(f.iterActive())
    elif what == "iterShape":
        list(f.iterShape())
    elif what == "iterActiveShape":
        list(f.iterActiveShape())
    elif what == "getPayload":
        f.getPayload(1)
        f.getPayload(-5)
    elif what == "countValues":
        f.countValues()
    else:
        raise ValueError(what)


def _run_seq(case):
    """several steps on the SAME fiber objects: traversals, read-only calls, growth"""
    fibers = [_build(case, t)[0] for t in [case["t"]] + case.get("others", [])]
    f = fibers[0]
    obs, side = [], {}
    pure = True
    for st in case["steps"]:
        op = st["op"]
        before = [_snap(case, x) for x in fibers]
        o = {}
        if op == "append":
            try:
                f.append(st["c"], _enc(case, st["v"]))
            except AssertionError:
                o["err"] = "rejected"
        elif op == "refassign":
            ref = f.getPayloadRef(st["c"])
            ref <<= _enc(case, st["v"])
        elif op == "touch":
            try:
                _touch(st["what"], f, case)
            except Exception as e:
                o["err"] = H.err_class(e)
        else:
            sub = dict(case)
            sub.update(st)
            o = _traverse(sub, op, fibers if op in CO_OPS else [f], side)
        after = [_snap(case, x) for x in fibers]
        o["before_all"], o["after_all"] = before, after
        o["after"] = after if op in CO_OPS else after[0]
        if not (op.endswith("ref") or op in ("append", "refassign")):
            pure = pure and before == after
        obs.append(o)
    side["operands_unchanged"] = pure
    case["impl"] = {"steps": obs}
    case["side"] = side
    return case


def run(case):
    op = case["op"]
    if op == "seq":
        return _run_seq(case)
    side = {}
    if op.startswith("co"):
        fibers = [_build(case, t)[0] for t in case["ts"]]
    else:
        fibers = [_build(case, case["t"])[0]]
    before = [_snap(case, x) for x in fibers]
    impl = _traverse(case, op, fibers, side)
    after = [_snap(case, x) for x in fibers]
    impl["after"] = after if op.startswith("co") else after[0]
    if not op.endswith("ref"):
        side["operands_unchanged"] = before == after
    case["impl"] = impl
    case["side"] = side
    return case


# ---------------------------------------------------------------------------------------
# classification
# ---------------------------------------------------------------------------------------

INTERESTING = {"skip-empty", "break", "below-start", "sp+", "absent-coord", "inserted", "iv-break", "iv-below", "rev",
               "fmt:U", "explicit-empty", "outer-range", "outside-range"}


def nontrivial(case, verdict):
    t = set(verdict.get("tags", []))
    if case["op"] == "seq":
        return bool(t & {"traversal-after-growth", "traversal-after-touch"})
    if "OUT_OF_MODEL" in t or "illegal-start" in t:
        return False
    if t & {"slice-empty", "range-empty", "result-empty"} or any(x.startswith("model-") for x in t):
        return False
    return bool(t & INTERESTING)


def signature(case, verdict, failed):
    """classification of a failing case for known_findings.json"""
    t = set(verdict.get("tags", []))
    op = case["op"]
    err = (case.get("impl") or {}).get("err")
    fl = "/".join(sorted(failed))
    if op == "seq":
        why = verdict.get("why", "")
        return f"seq:{fl}:{why.split(':')[0][:40]}"
    return f"{op}:{fl}:{err or 'no-exception'}"


def shrink_candidates(case):
    if case["op"] == "seq":
        st = case["steps"]
        for i in range(len(st) - 1):
            c = dict(case)
            c["steps"] = st[:i] + st[i + 1:]
            yield c
        if case.get("others"):
            c = dict(case)
            c["others"] = case["others"][:-1]
            yield c
        t = case["t"]
        for i in range(len(t)):
            c = dict(case)
            c["t"] = t[:i] + t[i + 1:]
            yield c
        return
    key = "ts" if case["op"].startswith("co") else "t"
    if key == "t":
        t = case["t"]
        for i in range(len(t)):
            c = dict(case)
            c["t"] = t[:i] + t[i + 1:]
            if c.get("sp") is not None and c["sp"] >= max(1, len(c["t"])):
                c["sp"] = max(0, len(c["t"]) - 1)
            yield c
    else:
        for j, t in enumerate(case["ts"]):
            for i in range(len(t)):
                c = dict(case)
                c["ts"] = case["ts"][:j] + [t[:i] + t[i + 1:]] + case["ts"][j + 1:]
                yield c
    for k in ("sp", "iv", "os", "oe", "active", "shape"):
        if case.get(k) is not None and not (k == "shape" and case.get("kind") == "owned"):
            c = dict(case)
            c[k] = None
            yield c
