"""C02 — a tensor's rank bookkeeping always mirrors its fibertree."""
import os, random, copy, tempfile, shutil
from harness import common as H, histories as HI

PROP = "C02"
ALPHABET = ["ref", "ref", "posref", "populate", "denseref", "assignf", "clear", "iaddf", "iadd", "imulf", "get", "get", "query"]
RULE = ("cases = (a) every tensor constructor and transform result (empty, fromFiber, fromUncompressed, fromRandom, "
        "fromYAMLfile, makePopulated, deepcopy, split*/swizzle/swap/flatten/unflatten/merge of random trees with explicit "
        "defaults and empty sub-fibers) observed as (raw tree, rank lists as coordinate paths); (b) histories on tensors of "
        "depth 1-3: insertions at any depth, getPositionRef, populate loops updating random subsets of the offered references, "
        "dense reference iteration, fiber assignment, clear, in-place arithmetic, rank lists observed after every step. "
        "non-trivial = depth >= 2 and (a transform result or a history with >= 2 kinds of operation)")

CTORS = ["empty", "fromFiber", "fromUncompressed", "fromRandom", "fromYAMLfile", "makePopulated", "deepcopy",
         "splitUniform", "splitEqual", "splitNonUniform", "splitUnEqual", "swizzle", "swap", "flatten", "unflatten",
         "merge", "updateCoords", "updatePayloads", "fromFiberOfRoot", "setRoot", "fromFiberOfSub", "setRootOfSub"]


def gen(seed, tier):
    rng = random.Random(seed)
    n_ctor = 200 if tier == "quick" else 1500
    for ctor in CTORS:
        for i in range(n_ctor):
            d = rng.choice([1, 2, 2, 3, 3, 4] if ctor in ("swizzle", "swap", "flatten", "unflatten", "merge") else [1, 2, 2, 3, 3])
            dflt = rng.choice([0, 0, 7])
            n = rng.choice([2, 3, 4])
            # every third tree is rich in empty sub-fibers (several of them next to non-empty ones)
            extra = {"p_emptysub": 0.35} if i % 3 == 2 else {}
            yield {"prop": PROP, "op": "ctor", "ctor": ctor, "d": d, "dflt": dflt, "n": n,
                   "t": H.gen_tree(rng, d, n, HI.POOL, dflt, **extra), "cseed": rng.randrange(1 << 30),
                   # which tensor is observed: the result, or the tensor the result was made from (it must
                   # still mirror its own tree after having served as an operand)
                   "observe": rng.choice(["result", "result", "source"])}
    n_hist = 6000 if tier == "quick" else 40000
    for i in range(n_hist):
        d = rng.choice([2, 2, 3])
        dflt = rng.choice([0, 0, 7])
        n = rng.choice([3, 4])
        ln = rng.choice([4, 8, 12]) if tier == "quick" else rng.choice([8, 30, 80])
        yield {"prop": PROP, "op": "history", "d": d, "dflt": dflt, "t": H.gen_tree(rng, d, n, HI.POOL, dflt),
               "n": n, "len": ln, "hseed": rng.randrange(1 << 30), "fdflt": rng.random() < 0.15,
               # configuration that must not matter to the bookkeeping: formats, a declared shape, own fiber defaults
               "cfg": rng.choice([{}, {}, {}, {"fmt": [rng.choice("CU") for _ in range(d)], "shape": [n + 3] * d},
                                  {"shape": [n + 3] * d}, {"fib0": True}]), "kind": "owned", "mode": "general"}


def _nest(tree, depth, n, dflt):
    """dense nest of lists of a tree over coordinates 0..n-1"""
    if depth == 0:
        return tree
    m = dict((c, p) for c, p in tree)
    return [_nest(m[c], depth - 1, n, dflt) if c in m else (_nest([], depth - 1, n, dflt) if depth > 1 else dflt)
            for c in range(n)]


def _build(case):
    """returns the tensor under test (its depth may differ from the operand's)"""
    made = _build2(case)
    if isinstance(made, tuple):
        res, src = made
        return src if (case.get("observe") == "source" and src is not None) else res
    return made


def _build2(case):
    """the constructed tensor, or (result, source tensor) for constructors that take a tensor"""
    ft = H.ft()
    # "d" is rewritten by run() to the depth of the tensor that was built (what the model is asked about); the depth
    # the case was generated with stays in "d0" so that running the case again builds the same thing
    case.setdefault("d0", case["d"])
    d, dflt, n = case["d0"], case["dflt"], case["n"]
    ids = [chr(ord("A") + k) for k in range(d)]
    rng = random.Random(case["cseed"])
    base = lambda: ft.Tensor.fromFiber(rank_ids=ids, fiber=H.build_fiber(case["t"], d, dflt), default=dflt)
    c = case["ctor"]
    if c == "empty":
        return ft.Tensor(rank_ids=ids, shape=[n] * d, default=dflt)
    if c == "fromFiber":
        return base()
    if c == "fromUncompressed":
        return ft.Tensor.fromUncompressed(rank_ids=ids, root=_nest(case["t"], d, n, dflt), default=dflt)
    if c == "fromRandom":
        return ft.Tensor.fromRandom(rank_ids=ids, shape=[n] * d, density=[rng.choice([1.0, 0.6])] * d,
                                    interval=5, seed=case["cseed"] % 1000)
    if c == "fromYAMLfile":
        td = tempfile.mkdtemp(prefix="ftc02-")
        try:
            fn = os.path.join(td, "t.yaml")
            base().dump(fn)
            return ft.Tensor.fromYAMLfile(fn)
        finally:
            shutil.rmtree(td, ignore_errors=True)
    if c == "makePopulated":
        return ft.Tensor.makePopulated(rank_ids=ids, shape=[rng.choice([1, 2, 3]) for _ in range(d)], initial=1, default=dflt)
    if c == "deepcopy":
        t = base()
        return copy.deepcopy(t), t
    t = base()
    if c == "fromFiberOfRoot":
        return ft.Tensor.fromFiber(rank_ids=ids, fiber=t.getRoot(), default=dflt), t
    if c == "setRoot":
        v = ft.Tensor(rank_ids=ids, default=dflt)
        v.setRoot(t.getRoot())
        return v, t
    if c in ("fromFiberOfSub", "setRootOfSub"):
        # a tensor made from a sub-fiber (first or later one) of another live tensor: the sub-fiber is copied,
        # the source keeps owning all of its fibers
        subs = [p for p in t.getRoot().payloads if isinstance(p, ft.Fiber)]
        if d < 2 or not subs:
            return t
        sub = subs[rng.randrange(len(subs))]
        if c == "fromFiberOfSub":
            return ft.Tensor.fromFiber(rank_ids=ids[1:], fiber=sub, default=dflt), t
        v = ft.Tensor(rank_ids=ids[1:], default=dflt)
        v.setRoot(sub)
        return v, t
    r = _transform(case, t, c, rng, ids, d)
    return (r.res, r.src) if isinstance(r, _Pair) else (r, t)


class _Pair:
    """a transform result together with the tensor it was applied to, when that is not the case's base tensor"""
    def __init__(self, res, src):
        self.res, self.src = res, src


def _transform(case, t, c, rng, ids, d):
    ft = H.ft()
    depth = rng.randrange(0, d)
    if c == "splitUniform":
        return t.splitUniform(rng.choice([1, 2, 3]), depth=depth)
    if c == "splitEqual":
        return t.splitEqual(rng.choice([1, 2]), depth=depth)
    if c == "splitNonUniform":
        return t.splitNonUniform([0, rng.choice([1, 2])], depth=depth)
    if c == "splitUnEqual":
        return t.splitUnEqual([1, 2], depth=depth)
    if c == "updateCoords":
        return t.updateCoords(lambda i, cc, p: cc + 1, depth=0)
    if c == "updatePayloads":
        return t.updatePayloads(lambda i, cc, p: p, depth=depth)
    if d < 2:
        return t
    depth = rng.randrange(0, d - 1)
    if c == "swizzle":
        perm = ids[:]
        rng.shuffle(perm)
        if d >= 3 and rng.random() < 0.5:
            # only the upper ranks permuted, the trailing ones stay in place (their fibers need not be rebuilt —
            # and must still not be taken from the source)
            keep = rng.randrange(1, d - 1)
            head = ids[:d - keep]
            while head == ids[:d - keep]:
                rng.shuffle(head)
            perm = head + ids[d - keep:]
        return t.swizzleRanks(perm)
    if c == "swap":
        return t.swapRanks(depth=depth)
    if c == "flatten":
        return t.flattenRanks(depth=depth, levels=rng.randrange(1, d - depth))
    if c == "unflatten":
        # the operand of the unflatten is the flattened intermediate: it is the "source" that must still mirror
        # its own tree afterwards
        mid = t.flattenRanks(depth=depth, levels=1)
        return _Pair(mid.unflattenRanks(depth=depth, levels=1), mid)
    if c == "merge":
        return t.mergeRanks(depth=depth, levels=1, merge_fn=lambda ps: ps[0])
    raise ValueError(c)


def _depth_of(t):
    return len(t.getRankIds())


def _int_snapshot(t):
    """tree snapshot with tuple coordinates replaced by their index among the fiber's coordinates?  No:
    C02 only needs the *shape* of the tree, so coordinates are renumbered 0..k-1 per fiber (order kept)."""
    Fiber = H.ft().Fiber

    def walk(f):
        out = []
        for i, p in enumerate(f.payloads):
            out.append([i, walk(p) if isinstance(p, Fiber) else 0])
        return out
    return walk(t.getRoot())


def _int_rank_paths(t):
    Fiber = H.ft().Fiber
    root = t.getRoot()
    path_of = {id(root): []}
    stack = [(root, [])]
    while stack:
        f, path = stack.pop()
        for i, p in enumerate(f.payloads):
            if isinstance(p, Fiber):
                path_of[id(p)] = path + [i]
                stack.append((p, path + [i]))
    return [[path_of.get(id(f)) for f in r.getFibers()] for r in t.ranks]


def run(case):
    ft = H.ft()
    side = {}
    if case["op"] == "ctor":
        try:
            t = _build(case)
        except Exception as e:
            # constructor crashes are other properties' business (C08/C09/C13); nothing to observe here
            case["impl"] = {"t": [], "ranks": [[[]]]}
            case["d"] = 1
            case["skipped"] = H.err_class(e)
            case["side"] = {}
            return case
        try:
            case["d"] = _depth_of(t)
            if not isinstance(t.getRoot(), ft.Fiber):
                case["impl"] = {"t": [], "ranks": [[[]]]}
                case["d"] = 1
                case["skipped"] = "rank-0"
                case["side"] = {}
                return case
            case["impl"] = {"t": _int_snapshot(t), "ranks": _int_rank_paths(t)}
            m = H.rank_mirror(t)
            side["owners_and_chain" + (": " + m if m else "")] = (m == "")
            # a derived per-rank operation: after Tensor.clearStats() no live fiber holds shortcut statistics
            live = [f for _, f, _ in HI.fibers_at(t.getRoot(), 0)]
            for f in live:
                try:
                    f.getPayload(0, start_pos=0) if len(f.coords) else f.getPayload(0, allocate=False, start_pos=0)
                except Exception:
                    pass
            if any(f.getSavedPosStats(clear=False) != (0, 0) for f in live):
                t.clearStats()
                if any(f.getSavedPosStats(clear=False) != (0, 0) for f in live):
                    side["clearStats_clears_every_live_fiber"] = False
        except Exception as e:
            # the tensor cannot even be observed through its public accessors
            case["impl"] = {"t": [], "ranks": [[[]]]}
            case["d"] = 1
            side["observable:" + H.err_class(e)] = False
        case["side"] = side
        return case
    case["impl"] = HI.run_history(case, ALPHABET, True)
    for st in case["impl"]:
        m = st.get("mirror", "")
        if m and ("owner" in m or "chain" in m or "twice" in m or "two positions" in m):
            side["owners_and_chain: " + m] = False
    case["side"] = side
    return case


def nontrivial(case, verdict):
    if case.get("skipped"):
        return False
    if case["op"] == "ctor":
        return case["d"] >= 2
    t = set(verdict.get("tags", []))
    return len(t & set(ALPHABET)) >= 2


def signature(case, verdict, failed):
    why = verdict.get("why", "")
    if case["op"] == "ctor":
        return f"ctor:{case['ctor']}:{'/'.join(sorted(f.split(':')[0] for f in failed))}"
    return f"history:{why.split(':')[0]}:{'/'.join(sorted(f.split(':')[0] for f in failed))}"
