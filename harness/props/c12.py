"""C12 — equality, emptiness and counting depend on content only."""
import copy, random, itertools
from harness import common as H

PROP = "C12"
NONE = -987654      # stands for the leaf default None ("no empty value") in cases and on the model side
RULE = ("cases = (query, tree(s), defaults, free/tensor-owned). small scope: all pairs of leaf fibers over 3 "
        "coordinates x {absent, explicit default, v1, v2}, all pairs of depth-2 trees over 2x2 coordinates "
        "x {absent, empty sub-fiber, explicit default, v}; random depth 1-3 pairs incl. b = a changed in one "
        "deep leaf and b = a with explicit defaults / empty sub-fibers added. non-trivial = some operand carries "
        "an explicit default or empty sub-fiber, or the pair differs in exactly one point, or is equal and non-empty")


def _depth2_small():
    subs = [None, []] + [f for f in H.all_leaf_fibers(2, [0, 1]) if f]
    for combo in itertools.product(subs, repeat=2):
        yield [[c, s] for c, s in enumerate(combo) if s is not None]


def _mutate_leaf(rng, tree, depth, dflt):
    """return a copy differing in exactly one stored leaf value (None if there is no leaf)"""
    t = copy.deepcopy(tree)
    paths = []

    def walk(node, d, path):
        for i, (c, p) in enumerate(node):
            if d == 1:
                paths.append(path + [i])
            else:
                walk(p, d - 1, path + [i])
    walk(t, depth, [])
    if not paths:
        return None
    path = rng.choice(paths)
    node = t
    for i in path[:-1]:
        node = node[i][1]
    old = node[path[-1]][1]
    node[path[-1]][1] = rng.choice([v for v in (1, 2, 5, -3, dflt) if v != old])
    return t


def _add_residue(rng, tree, depth, dflt, n):
    """insert explicit defaults / empty sub-fibers at absent coordinates (content unchanged)"""
    t = copy.deepcopy(tree)

    def walk(node, d):
        have = {c for c, _ in node}
        for c in range(n):
            if c not in have and rng.random() < 0.3:
                node.append([c, dflt if d == 1 else []])
        node.sort(key=lambda e: e[0])
        if d > 1:
            for _, p in node:
                walk(p, d - 1)
    walk(t, depth)
    return t


def gen(seed, tier):
    fibs = list(H.all_leaf_fibers(3, [0, 1, 2]))
    for a in fibs:
        for b in fibs:
            yield {"prop": PROP, "op": "eq", "d": 0, "da": 0, "db": 0, "a": a, "b": b, "kind": "free"}
        for op in ("isempty", "count", "nonempty"):
            yield {"prop": PROP, "op": op, "d": 0, "da": 0, "a": a, "kind": "free"}
    d2 = list(_depth2_small())
    step = 1 if tier == "thorough" else 3
    for i, a in enumerate(d2):
        for k, b in enumerate(d2):
            if (i + k) % step == 0:
                yield {"prop": PROP, "op": "eq", "d": 1, "da": 0, "db": 0, "a": a, "b": b,
                       "kind": "owned" if (i + k) % 2 else "free"}
        for op in ("isempty", "count", "nonempty"):
            yield {"prop": PROP, "op": op, "d": 1, "da": 0, "a": a, "kind": "free"}
    rng = random.Random(seed)
    nrand = 10000 if tier == "quick" else 80000
    for i in range(nrand):
        d = rng.choice([0, 1, 1, 2])
        da = rng.choice([0, 0, 7, 0, 0, 7, NONE])
        db = da if (rng.random() < 0.85 or da == NONE) else rng.choice([0, 7])
        n = rng.choice([3, 4, 6])
        # leaf default None ("no empty value", NONE stands for it on the model side): every stored leaf counts,
        # zeros included; the only residue such a tree can hold is an empty sub-fiber
        a = H.gen_tree(rng, d + 1, n, (1, 2, -3, 7, 0), 0 if da == NONE else da)
        kind = "owned" if rng.random() < 0.4 else "free"
        r = rng.random()
        if r < 0.25:
            b = H.gen_tree(rng, d + 1, n, (1, 2, -3, 7, 0), 0 if db == NONE else db)
        elif r < 0.5:
            b = _mutate_leaf(rng, a, d + 1, da) or []
        elif r < 0.75 and da != NONE:
            b = _add_residue(rng, a, d + 1, db, n)
        else:
            b = copy.deepcopy(a)
        op = rng.choice(["eq", "eq", "eq", "teq", "teq", "isempty", "count", "tcount", "nonempty"])
        case = {"prop": PROP, "op": op, "d": d, "da": da, "a": a, "kind": kind,
                "fdflt": rng.random() < 0.15 and da != NONE}
        if da == NONE:
            if op in ("eq", "teq"):
                case.update({"db": db, "b": b})
            if op == "teq":
                ids = [f"R{d - k}" for k in range(d + 1)]
                case.update({"idsA": ids, "idsB": list(ids), "kind": "owned"})
            if op == "tcount":
                case["kind"] = "owned"
            yield case
            continue
        if op in ("eq", "teq", "isempty", "count") and rng.random() < 0.15:
            # leaf values (and defaults) mapped injectively to floats that differ only around the 10th digit:
            # equality, emptiness and counting are exact, not approximate
            case["near"] = True
            case["fdflt"] = False
        if kind == "owned" or op in ("teq", "tcount"):
            r3 = rng.random()
            if r3 < 0.2:
                # ranks declared uncompressed (with a declared extent): emptiness, equality, counting and
                # pruning are about content, not about how a rank is iterated
                case["fmtA"] = [rng.choice("CU") for _ in range(d + 1)]
                case["shapeA"] = [n] * (d + 1)
            elif r3 < 0.4:
                # the fibers are built with their own default 0, the tensor declares another one
                case["fibdfltA"] = 0
        if op in ("eq", "teq"):
            case.update({"db": db, "b": b})
            if "fmtA" in case:
                case["db"] = da     # an uncompressed rank presents its default: same default on both sides
        if op == "teq":
            ids = [f"R{d - k}" for k in range(d + 1)]
            idsB = list(ids)
            if rng.random() < 0.3:
                idsB[rng.randrange(len(idsB))] = "X"
            case.update({"idsA": ids, "idsB": idsB, "kind": "owned"})
            # declared shapes are not content: equal trees under different declared shapes stay equal
            for key in ("shapeA", "shapeB"):
                if rng.random() < 0.5:
                    case[key] = [n + rng.randrange(0, 4) for _ in range(d + 1)]
        if op == "tcount":
            # the tensor-level count, also after sub-fibers entered the tree through the fiber interface
            # (append / position assignment), which the count must see because it is defined by the tree
            case["kind"] = "owned"
            r2 = rng.random()
            if d >= 1 and r2 < 0.3:
                case["mut"] = ["append", n + 1, H.gen_tree(rng, d, n, (1, 2, -3, 7, 0), da)]
            elif d >= 1 and a and r2 < 0.6:
                case["mut"] = ["setitem", rng.randrange(len(a)), H.gen_tree(rng, d, n, (1, 2, -3, 7, 0), da)]
        yield case


def _ranks(t):
    return sorted(len(r.getFibers()) for r in t.ranks), [[id(f) for f in r.getFibers()] for r in t.ranks]


def run(case):
    ft = H.ft()
    d, op = case["d"], case["op"]
    da = case["da"]
    if da == NONE:
        case = dict(case)
        return _restore_none(_run(dict(case, da=None, db=None if case.get("db") == NONE else case.get("db"))), case)
    return _run(case)


def _restore_none(res, case):
    """the model side keeps the stand-in NONE for the default None"""
    res["da"] = case["da"]
    if "db" in case:
        res["db"] = case["db"]
    return res


def _run(case):
    ft = H.ft()
    d, op = case["d"], case["op"]
    da = case["da"]
    if case.get("fdflt"):
        da = float(da)
    near = case.get("near")

    def fmap(v):
        return 1.0 + v * 6e-10

    def nmap(tree, depth):
        return [[c, (fmap(p) if depth == 1 else nmap(p, depth - 1))] for c, p in tree]
    # running a case twice must observe the same thing: the tree the case started from is kept in "a0" when a
    # structural mutation rewrites "a" (what the model is asked about)
    ta_tree, tb_tree = case.get("a0", case["a"]), case.get("b")
    if near:
        ta_tree = nmap(ta_tree, d + 1)
        tb_tree = nmap(tb_tree, d + 1) if tb_tree is not None else None
        da = fmap(da)
        case.pop("fibdfltA", None)
    fa = H.build_fiber(ta_tree, d + 1, case.get("fibdfltA", da) if case["kind"] == "owned" else da)
    objs, tensors = [fa], []
    ta = tb = None
    if case["kind"] == "owned":
        ta = ft.Tensor.fromFiber(rank_ids=case.get("idsA", [f"R{d - k}" for k in range(d + 1)]), fiber=fa, default=da,
                                 shape=case.get("shapeA"))
        for k, fm in enumerate(case.get("fmtA", [])):
            ta.setFormat(ta.getRankIds()[k], fm)
        tensors.append(ta)
        fa = ta.getRoot()
        objs = [fa]
    fb = None
    if "b" in case:
        dbv = fmap(case["db"]) if near else case["db"]
        fb = H.build_fiber(tb_tree, d + 1, dbv)
        if case["kind"] == "owned":
            tb = ft.Tensor.fromFiber(rank_ids=case.get("idsB", [f"R{d - k}" for k in range(d + 1)]), fiber=fb, default=dbv,
                                     shape=(case.get("shapeA") if case.get("fmtA") else case.get("shapeB")))
            # both sides declare the same ranks uncompressed (see DESIGN, readings: a U-format and a C-format
            # fiber of equal content are told apart by the unchanged code; C12 does not quantify over formats)
            for k, fm in enumerate(case.get("fmtA", [])):
                tb.setFormat(tb.getRankIds()[k], fm)
            tensors.append(tb)
            fb = tb.getRoot()
        objs.append(fb)
    if op == "tcount" and case.get("mut"):
        kind_, where, sub = case["mut"]
        subf = H.build_fiber(sub, d, da)
        if kind_ == "append":
            fa.append(where, subf)
        else:
            fa[where] = subf
        case.setdefault("a0", case["a"])
        case["a"] = H.snapshot(fa)
    before = ([H.snapshot(o) for o in objs], [_ranks(t) for t in tensors])
    side = {}
    if op == "eq":
        case["impl"] = bool(fa == fb)
        side["symmetric"] = bool(fb == fa) == case["impl"]
        side["reflexive"] = bool(fa == fa) and bool(fb == fb)
        side["deepcopy_equal"] = bool(copy.deepcopy(fa) == fa)
    elif op == "teq":
        case["impl"] = bool(ta == tb)
        side["symmetric"] = bool(tb == ta) == case["impl"]
        side["deepcopy_equal"] = bool(copy.deepcopy(ta) == ta)
    elif op == "isempty":
        case["impl"] = bool(fa.isEmpty())
    elif op == "count":
        case["impl"] = int(fa.countValues())
    elif op == "tcount":
        case["impl"] = int(ta.countValues())
        side["agrees_with_root_count"] = case["impl"] == int(ta.getRoot().countValues())
    elif op == "nonempty":
        res = fa.nonEmpty()
        case["impl"] = H.snapshot(res)
        if "U" not in case.get("fmtA", []):
            side["pruned_equals_original"] = bool(res == fa)
    if ta is not None and op in ("eq", "teq", "count", "tcount", "isempty") and "U" not in case.get("fmtA", []):
        # an owner-less copy of a tensor's tree is an equal tree with the same count (taken on a deep copy
        # of the tensor, so that nothing done here can disturb the operands)
        try:
            r0 = copy.deepcopy(ta).getRoot()
            c0 = r0.copy(preserve_owner=False)
            side["detached_copy_equal"] = bool(c0 == r0) and bool(r0 == c0) and c0.countValues() == r0.countValues() \
                and bool(c0.isEmpty()) == bool(r0.isEmpty())
            # ... also when the copied tree has an unowned fiber ABOVE the tensor's owned ones; and taking the
            # copy changes nothing about the original (its count and emptiness are those of the tensor's tree)
            n0, e0 = int(r0.countValues()), bool(r0.isEmpty())
            mixed = ft.Fiber([4], [r0])
            c1 = mixed.copy(preserve_owner=False)
            side["detached_copy_of_mixed_ownership_equal"] = bool(c1 == mixed) and bool(mixed == c1) \
                and int(c1.countValues()) == n0 and bool(c1.isEmpty()) == e0
            side["copy_leaves_original_as_it_was"] = int(mixed.countValues()) == n0 and int(r0.countValues()) == n0 \
                and bool(r0.isEmpty()) == e0
        except Exception as e:
            side["detached_copy:" + H.err_class(e)] = False
    after = ([H.snapshot(o) for o in objs], [_ranks(t) for t in tensors])
    side["operands_unchanged"] = before[0] == after[0]
    side["rank_lists_unchanged"] = before[1] == after[1]
    case["side"] = side
    return case


def nontrivial(case, verdict):
    t = set(verdict.get("tags", []))
    return bool(t & {"residueA", "residueB", "differ-one-point"}) or ("equal" in t and "emptyA" not in t)


def signature(case, verdict, failed):
    return f"{case['op']}:{'/'.join(sorted(failed))}"
