"""C09 — rank transforms move every point to its image and nothing else.

A case is an initial tensor (tree, default, optional declared shape) and a pipeline of one or two
Tensor-level transforms; every stage is run on the REAL code and recorded as
(input snapshot, operation, observation).  The Lean driver runs its model of the operation on the
recorded input, compares with the observation (`agree`), and evaluates the declarative content
specification on the observation (`spec`); for pipelines that are a transform followed by its
inverse it also checks that the last observation has the content of the first input.
"""
import random, itertools
from harness import common as H

PROP = "C09"
RULE = ("cases = (tensor of depth 2-4 with int coordinates [or tuple coordinates for a direct unflatten], "
        "default 0 or 7, optional declared shape) x pipeline in {swizzle p ; swizzle p^-1 | swap k ; swap k | "
        "flatten(k,levels,tuple|pair) ; unflatten(k,levels) | flatten linear | merge(k,levels,absolute|relative|"
        "tuple,sum|max) | flatten(absolute|relative) | split(uniform|equal,k) ; flatten(k,absolute) | unflatten}. "
        "small scope: every depth-2 tree over 2x2 coordinates with leaf states {absent, explicit default, 1, 2} "
        "and absent/empty sub-fibers, every applicable pipeline; thorough adds every depth-3 tree over 2x2x2 "
        "coordinates with leaf states {absent, explicit default, 1} (sampled pipelines); random: depth 2-4, "
        "explicit defaults, empty and all-default sub-fibers, empty tensors, all permutations, all "
        "(depth, levels, style); 3-way collisions of sub-fibers (three upper coordinates onto one merged "
        "coordinate, absolute and relative) under the non-associative merge functions; collision-rich random "
        "tensors; compositions flatten(k', levels, tuple|pair) ; swap(k) / swizzle on the tensor that now "
        "carries tuple coordinates (also flatten ; flatten). Operand variations: rank format U on any rank "
        "(small scope: every depth-2 tensor x {CU, UC, UU}; random mixes; judged by the content "
        "specification), declared shape larger than needed, fibers built with a default other than the "
        "tensor's, float values with float / non-integral defaults, multi-digit coordinates 2<9<10<100; "
        "split ; swizzle p ; swizzle p^-1 on split tensors (fibers with different active ranges in one rank); "
        "side conditions on a subset: same call twice gives the same result, operand unchanged; on every "
        "case: no object reachable twice in a result and none shared with the operand. non-trivial = the input tensor has at least one non-default point")

STYLES_INJ = ["tuple", "pair"]
# merge functions: sum (the default), max, and two that are neither associative nor decomposable
# (count of the colliding points; first value * 10 + count, which also depends on the order)
MFS = ("sum", "max", "count", "mix")
_MF = {"sum": None, "max": (lambda ps: max(ps)), "count": (lambda ps: len(ps)),
       "mix": (lambda ps: ps[0] * 10 + len(ps))}


# ---------------------------------------------------------------------------------------
# generators
# ---------------------------------------------------------------------------------------

def _pipelines(D, rng=None, n=3):
    """all pipelines applicable to a tensor with D integer-coordinate ranks"""
    out = []
    for perm in itertools.permutations(range(D)):
        perm = list(perm)
        inv = [perm.index(i) for i in range(D)]
        out.append([{"op": "swizzle", "perm": perm}, {"op": "swizzle", "perm": inv}])
    for k in range(D - 1):
        out.append([{"op": "swap", "k": k}, {"op": "swap", "k": k}])
    for k in range(D - 1):
        for L in range(1, D - k):
            for st in STYLES_INJ:
                out.append([{"op": "flatten", "k": k, "levels": L, "style": st},
                            {"op": "unflatten", "k": k, "levels": L}])
            out.append([{"op": "flatten", "k": k, "levels": L, "style": "linear"}])
            out.append([{"op": "merge", "k": k, "levels": L, "style": "tuple", "mf": "sum"}])
            for st in ("absolute", "relative"):
                out.append([{"op": "flatten", "k": k, "levels": L, "style": st}])
                for mf in MFS:
                    out.append([{"op": "merge", "k": k, "levels": L, "style": st, "mf": mf}])
    for k in range(D):
        for kind, step in (("uniform", 2), ("uniform", 1), ("equal", 2)):
            out.append([{"op": "split", "kind": kind, "step": step, "k": k},
                        {"op": "flatten", "k": k, "levels": 1, "style": "absolute"}])
    out += _compositions(D)
    return out


def _compositions(D):
    """a transform applied to a tensor that already carries tuple coordinates from an earlier flatten"""
    out = []
    for kf in range(D - 1):
        for L in range(1, D - kf):
            D2 = D - L                       # ranks after the flatten; rank kf holds (L+1)-tuples
            for st in STYLES_INJ:
                fl = {"op": "flatten", "k": kf, "levels": L, "style": st}
                for k in (kf - 1, kf):       # swap the tuple rank with its upper / lower neighbour
                    if 0 <= k and k + 1 <= D2 - 1:
                        out.append([fl, {"op": "swap", "k": k}])
                for k2 in (kf - 1, kf):      # flatten again, the tuple rank being the lower / the upper one
                    if 0 <= k2 and k2 + 1 <= D2 - 1:
                        out.append([fl, {"op": "flatten", "k": k2, "levels": 1, "style": "tuple"}])
                if D2 >= 2 and st == "tuple":
                    perm = list(range(D2))
                    perm[kf], perm[(kf + 1) % D2] = perm[(kf + 1) % D2], perm[kf]
                    out.append([fl, {"op": "swizzle", "perm": perm}])
    return out


def _case(t, D, dflt, pipe, shape=None, rt=None):
    c = {"prop": PROP, "t": t, "depth": D, "dflt": dflt, "ops": pipe}
    if shape is not None:
        c["shape"] = shape
    return c


def _small_depth2(states):
    subs = list(H.all_leaf_fibers(2, states))
    opts = [None] + subs
    for a in opts:
        for b in opts:
            yield [[c, s] for c, s in ((0, a), (1, b)) if s is not None]


def _small_depth3(states):
    d2 = list(_small_depth2(states))
    opts = [None] + d2
    for a in opts:
        for b in opts:
            yield [[c, s] for c, s in ((0, a), (1, b)) if s is not None]


def _tuple_tree(rng, depth, k, ar, n, dflt, pool):
    """tree whose rank k has `ar`-component tuple coordinates (ascending), other ranks ints"""
    def rec(level):
        if level == depth:
            r = rng.random()
            return dflt if r < 0.15 else rng.choice(pool)
        if level == k:
            coords = [list(c) for c in itertools.product(range(n), repeat=ar)]
        else:
            coords = list(range(n))
        out = []
        for c in coords:
            r = rng.random()
            if r < 0.45:
                continue
            if level + 1 < depth and r < 0.55:
                out.append([c, []])
                continue
            out.append([c, rec(level + 1)])
        return out
    return rec(0)


def gen(seed, tier):
    # --- bounded exhaustive
    for t in _small_depth2([0, 1, 2]):
        for pipe in _pipelines(2):
            yield _case(t, 2, 0, pipe, shape=[2, 2])
    for t in _small_depth2([7, 1, 0]):           # default 7: explicit 7 is empty, 0 is a value
        for pipe in _pipelines(2):
            yield _case(t, 2, 7, pipe, shape=[2, 2])
    rng = random.Random(seed)
    if tier != "quick":
        p3 = _pipelines(3)
        for i, t in enumerate(_small_depth3([0, 1])):
            for pipe in rng.sample(p3, 6):
                yield _case(t, 3, 0, pipe, shape=[2, 2, 2])
    # --- seeded random
    nrand = 2500 if tier == "quick" else 120000
    pipes = {D: _pipelines(D) for D in (2, 3, 4)}
    for i in range(nrand):
        D = rng.choice([2, 3, 3, 3, 4, 4])
        dflt = rng.choice([0, 0, 7])
        n = rng.choice([2, 3, 3, 4]) if D < 4 else rng.choice([2, 2, 3])
        pool = (1, 2, -3, 5) if dflt == 0 else (1, 2, -3, 0, 0)
        r = rng.random()
        if r < 0.03:
            t = []
        elif r < 0.10:
            t = H.gen_tree(rng, D, n, pool, dflt, 0.3, 0.5, 0.4, 0.3)      # mostly empty / default
        elif r < 0.40:
            t = H.gen_tree(rng, D, n, pool, dflt, 0.35, 0.0, 0.0, 0.0)     # canonical
        else:
            t = H.gen_tree(rng, D, n, pool, dflt)
        if rng.random() < 0.12:
            # direct unflatten of a tensor with tuple coordinates
            k = rng.randrange(D - 1) if D > 2 else 0
            L = rng.choice([1, 1, 2])
            Dd = rng.choice([1, 2, 3])
            k = rng.randrange(Dd)
            tt = _tuple_tree(rng, Dd, k, L + 1, 2, dflt, pool)
            c = _case(tt, Dd, dflt, [{"op": "unflatten", "k": k, "levels": L}])
            c["tuple_rank"] = [k, L + 1]
            if rng.random() < 0.5:
                c["shape"] = [([2] * (L + 1) if i == k else 2) for i in range(Dd)]
            yield c
            continue
        pipe = rng.choice(pipes[D])
        shape = [n] * D if (rng.random() < 0.5 or pipe[0].get("style") == "linear") else None
        yield _case(t, D, dflt, pipe, shape=shape)
    # --- many-way collisions of sub-fibers under non-associative merge functions
    # ranks A,B,C: three A coordinates whose single B coordinate maps to the SAME merged coordinate
    # (absolute: B = 0; relative: A + B = 2), every C fiber over 2 coordinates x {absent, 1, 2}
    subs = [s for s in H.all_leaf_fibers(2, [1, 2])]
    rng2 = random.Random(seed + 7919)
    combos = list(itertools.product(subs, repeat=3))
    if tier == "quick":
        combos = rng2.sample(combos, 250)
    for trio in combos:
        for style, bs in (("absolute", (0, 0, 0)), ("relative", (2, 1, 0))):
            t = [[a, [[bs[a], trio[a]]]] for a in range(3)]
            for mf in ("count", "mix"):
                yield _case(t, 3, 0, [{"op": "merge", "k": 0, "levels": 1, "style": style, "mf": mf}])
    # --- collision-rich random tensors (few absent elements), merges above payload fibers and
    #     compositions with an earlier flatten
    comps = {D: _compositions(D) for D in (3, 4)}
    for i in range(500 if tier == "quick" else 20000):
        D = rng2.choice([3, 3, 4])
        dflt = rng2.choice([0, 0, 7])
        n = rng2.choice([3, 4]) if D == 3 else 3
        pool = (1, 2, -3, 5) if dflt == 0 else (1, 2, -3, 0)
        t = H.gen_tree(rng2, D, n, pool, dflt, 0.15, 0.08, 0.08, 0.04)
        if i % 2 == 0:
            k = rng2.randrange(D - 2)
            L = rng2.choice([1, 1, 2]) if D - k - 2 >= 1 else 1
            L = min(L, D - k - 2)            # at least one rank of payload fibers stays below
            pipe = [{"op": "merge", "k": k, "levels": max(L, 1), "style": rng2.choice(["absolute", "relative"]),
                     "mf": rng2.choice(["count", "mix", "count", "mix", "sum", "max"])}]
        else:
            pipe = rng2.choice(comps[D])
        yield _case(t, D, dflt, pipe, shape=([n] * D if rng2.random() < 0.3 else None))
    # --- declared shapes that differ from rank to rank (and are larger than needed), depth 3-4:
    #     every (k, levels, tuple|pair|linear) flatten followed by its unflatten; the declared shape
    #     of every result must contain the stored coordinates, with the coordinates' own nesting
    for i in range(300 if tier == "quick" else 6000):
        D = rng2.choice([3, 4, 4])
        n = rng2.choice([2, 3])
        dflt = rng2.choice([0, 7])
        pool = (1, 2, -3, 5) if dflt == 0 else (1, 2, -3, 0)
        exts = list(range(n, n + D))
        rng2.shuffle(exts)

        def clip(tree, level):        # every rank uses its own extent fully: coordinates 0 .. exts[level]-1
            return [[cc, (clip(sub, level + 1) if level + 1 < D else sub)] for cc, sub in tree if cc < exts[level]]
        t = clip(H.gen_tree(rng2, D, max(exts), pool, dflt, 0.3, 0.1, 0.08, 0.04), 0)
        k = rng2.randrange(D - 1)
        L = rng2.randrange(1, D - k)
        st = rng2.choice(["tuple", "pair", "pair", "linear"])
        pipe = [{"op": "flatten", "k": k, "levels": L, "style": st}]
        if st != "linear":
            pipe.append({"op": "unflatten", "k": k, "levels": L})
        yield _case(t, D, dflt, pipe, shape=exts)
    # --- split ; swizzle ; inverse swizzle: after a split the fibers of one rank have DIFFERENT active
    #     ranges; every permutation of the ranks of the split tensor (in particular the lower split rank
    #     moved above the upper one) and back
    d2 = list(_small_depth2([0, 1, 2]))
    for t in (rng2.sample(d2, 80) if tier == "quick" else d2):
        for k in (0, 1):
            for perm in itertools.permutations(range(3)):
                perm = list(perm)
                if perm == [0, 1, 2]:
                    continue
                inv = [perm.index(j) for j in range(3)]
                yield _case(t, 2, 0, [{"op": "split", "kind": "uniform", "step": 1, "k": k},
                                      {"op": "swizzle", "perm": perm}, {"op": "swizzle", "perm": inv}],
                            shape=[2, 2])
    for i in range(400 if tier == "quick" else 8000):
        D = rng2.choice([2, 2, 3])
        n = rng2.choice([4, 5, 6, 9])
        dflt = rng2.choice([0, 0, 7])
        pool = (1, 2, -3, 5) if dflt == 0 else (1, 2, -3, 0)
        t = H.gen_tree(rng2, D, n, pool, dflt, 0.3, 0.1, 0.08, 0.04)
        k = rng2.randrange(D)
        kind, step = rng2.choice([("uniform", 2), ("uniform", 3), ("equal", 2)])
        perm = list(range(D + 1))
        while perm == list(range(D + 1)):
            rng2.shuffle(perm)
        inv = [perm.index(j) for j in range(D + 1)]
        yield _case(t, D, dflt, [{"op": "split", "kind": kind, "step": step, "k": k},
                                 {"op": "swizzle", "perm": perm}, {"op": "swizzle", "perm": inv}],
                    shape=([n] * D if rng2.random() < 0.6 else None))
    # --- rank format "U" on the operand, small scope: every depth-2 tensor x {CU, UC, UU}
    upipes = [[{"op": "flatten", "k": 0, "levels": 1, "style": "tuple"}, {"op": "unflatten", "k": 0, "levels": 1}],
              [{"op": "flatten", "k": 0, "levels": 1, "style": "linear"}],
              [{"op": "swap", "k": 0}, {"op": "swap", "k": 0}],
              [{"op": "swizzle", "perm": [1, 0]}, {"op": "swizzle", "perm": [1, 0]}]]
    for t in _small_depth2([0, 1, 2]):
        for fmt in (["C", "U"], ["U", "C"], ["U", "U"]):
            for pipe in upipes:
                lin = pipe[0].get("style") == "linear"
                c = _case(t, 2, 0, pipe, shape=([2, 2] if lin or rng2.random() < 0.5 else None))
                c["fmt"] = fmt
                yield c
    # the default elements a "U" leaf rank presents take part in merges (open finding): kept to this
    # family — sparse depth-2 tensors, lower rank "U", colliding styles
    for t in list(_small_depth2([0, 1]))[:40]:
        for pipe in ([{"op": "merge", "k": 0, "levels": 1, "style": "absolute", "mf": "mix"}],
                     [{"op": "flatten", "k": 0, "levels": 1, "style": "relative"}]):
            c = _case(t, 2, 0, pipe, shape=[2, 2])
            c["fmt"] = ["C", "U"]
            c["ucollide"] = True
            yield c
    # --- variations of the operand: formats, declared shape larger than needed, fibers built with a
    #     default other than the tensor's, float values and default, multi-digit coordinates
    #     (9 < 10 < 100), the same call twice
    allp = {D: pipes[D] for D in (2, 3, 4)}
    cmaps = {0: 2, 1: 9, 2: 10, 3: 100}
    for i in range(1800 if tier == "quick" else 40000):
        D = rng2.choice([2, 3, 3, 4])
        dflt = rng2.choice([0, 0, 7])
        n = rng2.choice([2, 3, 4]) if D < 4 else rng2.choice([2, 3])
        pool = (1, 2, -3, 5) if dflt == 0 else (1, 2, -3, 0, 0)
        t = H.gen_tree(rng2, D, n, pool, dflt) if rng2.random() < 0.7 else \
            H.gen_tree(rng2, D, n, pool, dflt, 0.2, 0.1, 0.1, 0.05)
        pipe = rng2.choice(allp[D])
        lin = pipe[0].get("style") == "linear"
        c = _case(t, D, dflt, pipe)
        ext = n
        v = rng2.random()
        if v < 0.30:
            # ops under which the default elements a "U" rank presents cannot collide
            safe = [pp for pp in allp[D] if all(
                o["op"] in ("swizzle", "swap", "unflatten") or
                (o["op"] in ("flatten", "merge") and o["style"] in ("tuple", "pair", "linear")) for o in pp)]
            pipe = rng2.choice(safe)
            lin = pipe[0].get("style") == "linear"
            c = _case(t, D, dflt, pipe)
            fmt = [rng2.choice("CU") for _ in range(D)]
            if "U" not in fmt:
                fmt[rng2.randrange(D)] = "U"
            c["fmt"] = fmt
        elif v < 0.45:
            def remap(tree, depth):
                return [[cmaps[cc], (remap(sub, depth - 1) if depth > 1 else sub)] for cc, sub in tree]
            c["t"] = remap(t, D)
            ext = 101
        elif v < 0.60:
            # float values; half of the time a non-integral float default (0.5 <-> model default 99)
            if rng2.random() < 0.5 and not any(o.get("mf") in ("count", "mix", "max") for o in pipe):
                def redef(tree, depth):
                    return [[cc, (redef(sub, depth - 1) if depth > 1 else (99 if sub == dflt else sub))]
                            for cc, sub in tree]
                c["t"] = redef(t, D)
                c["dflt"] = 99
                c["vkind"] = "hdflt"
            else:
                c["vkind"] = "float"
        elif v < 0.75 and dflt != 0:
            c["fdflt"] = 0
        if lin or rng2.random() < 0.5:
            c["shape"] = [ext + rng2.choice([0, 0, 3])] * D
        c["twice"] = True
        yield c


# ---------------------------------------------------------------------------------------
# running the real code
# ---------------------------------------------------------------------------------------

def _tup(c):
    return tuple(_tup(x) for x in c) if isinstance(c, list) else c


def _build(tree, depth, dflt):
    F = H.ft().Fiber
    if depth == 1:
        return F([_tup(c) for c, _ in tree], [v for _, v in tree], default=dflt)
    return F([_tup(c) for c, _ in tree], [_build(s, depth - 1, dflt) for _, s in tree], default=dflt)


def _default_of(t):
    d = t.getDefault()
    return H.ft().Payload.get(d)


def _nesting(c):
    """'int', 'flat' (tuple of ints), 'pair' (right-nested pairs), 'other'"""
    if not isinstance(c, tuple):
        return "int"
    if all(not isinstance(x, tuple) for x in c):
        return "flat"
    if len(c) == 2 and not isinstance(c[0], tuple) and _nesting(c[1]) in ("flat", "pair") \
            and (_nesting(c[1]) == "pair" or len(c[1]) == 2):
        return "pair"
    return "other"


def _coords_at(f, k):
    Fiber = H.ft().Fiber
    if k == 0:
        return list(f.coords)
    out = []
    for p in f.payloads:
        if isinstance(p, Fiber):
            out += _coords_at(p, k - 1)
    return out


def _apply(t, op):
    ft = H.ft()
    o = op["op"]
    if o == "swizzle":
        ids = t.getRankIds()
        return t.swizzleRanks([ids[g] for g in op["perm"]])
    if o == "swap":
        return t.swapRanks(depth=op["k"])
    if o == "flatten":
        return t.flattenRanks(depth=op["k"], levels=op["levels"], coord_style=op["style"])
    if o == "merge":
        mf = _MF[op.get("mf", "sum")]
        return t.mergeRanks(depth=op["k"], levels=op["levels"], coord_style=op["style"], merge_fn=mf)
    if o == "unflatten":
        return t.unflattenRanks(depth=op["k"], levels=op["levels"])
    if o == "split":
        if op["kind"] == "uniform":
            return t.splitUniform(op["step"], depth=op["k"])
        return t.splitEqual(op["step"], depth=op["k"])
    raise ValueError(o)


HALF = 0.5        # value kind "float": values are float(v); with "hdflt" the DEFAULT is 0.5 (a value no
                  # integer-valued merge can produce) and stands for the model's integer default


def _snap(obj, vk, dflt=None):
    """H.snapshot (integral floats come back as integers); the non-integral default 0.5 of the
    "hdflt" kind is mapped back to the model's default"""
    s = H.snapshot(obj)
    if vk != "hdflt":
        return s

    def rec(x):
        if isinstance(x, dict) and "float" in x:
            return dflt if float.fromhex(x["float"]) == HALF else x
        if isinstance(x, list):
            return [rec(y) for y in x]
        return x
    return rec(s)


def _dflt_of(t, vk, dflt=None):
    d = _default_of(t)
    if isinstance(d, float):
        if vk == "hdflt" and d == HALF:
            return dflt
        return int(d) if d.is_integer() else {"float": d.hex()}
    return d


def _tt(c):
    return c if isinstance(c, tuple) else (c,)


def _expected_coords(root, k, L, style):
    """the coordinates (as Python objects, nesting included) the flattened rank must hold: one per stored
    path through ranks k .. k+L — tuple: the flat tuple of the components of all of them (a coordinate
    that is itself a tuple is spliced in); pair: right-nested pairs (c_k, (c_k+1, (.. c_k+L)))"""
    Fiber = H.ft().Fiber

    def fibers_at(f, d):
        if d == 0:
            return [f]
        return [g for p in f.payloads if isinstance(p, Fiber) for g in fibers_at(p, d - 1)]

    def paths(f, n):
        if n == 0:
            return [(c,) for c in f.coords]
        return [(c,) + rest for c, p in zip(f.coords, f.payloads) if isinstance(p, Fiber)
                for rest in paths(p, n - 1)]
    out = set()
    for f in fibers_at(root, k):
        for path in paths(f, L):
            if style == "tuple":
                out.add(tuple(x for c in path for x in _tt(c)))
            else:
                nested = path[-1]
                for c in reversed(path[:-1]):
                    nested = (c, nested)
                out.add(nested)
    return out


def _fits(c, s):
    """coordinate c lies inside the declared extent s (same nesting for tuple / pair coordinates)"""
    if isinstance(c, tuple) or isinstance(s, tuple):
        return isinstance(c, tuple) and isinstance(s, tuple) and len(c) == len(s) and \
            all(_fits(x, y) for x, y in zip(c, s))
    return isinstance(c, int) and isinstance(s, int) and 0 <= c < s


def _outside_active(f):
    """a fiber (anywhere below f) that stores an integer coordinate outside its own active range"""
    Fiber = H.ft().Fiber
    try:
        lo, hi = f.getActive()
    except Exception:
        lo, hi = None, None
    if isinstance(lo, (int, float)) and isinstance(hi, (int, float)):
        if any(isinstance(c, int) and not (lo <= c < hi) for c in f.coords):
            return True
    return any(_outside_active(p) for p in f.payloads if isinstance(p, Fiber))


def _fiber_ids(f, acc):
    """ids of every Fiber / boxed leaf object reachable from f, with repetitions"""
    Fiber = H.ft().Fiber
    acc.append(id(f))
    for p in f.payloads:
        if isinstance(p, Fiber):
            _fiber_ids(p, acc)
        else:
            acc.append(id(p))
    return acc


def run(case):
    ft = H.ft()
    D, dflt = case["depth"], case["dflt"]
    vk = case.get("vkind", "int")
    if vk == "hdflt":
        vmap = lambda v: HALF if v == dflt else float(v)
    elif vk == "float":
        vmap = float
    else:
        vmap = lambda v: v
    fd = case.get("fdflt", dflt)            # default handed to the Fiber constructors (the tensor's wins)

    def build(tree, depth):
        F = ft.Fiber
        if depth == 1:
            return F([_tup(c) for c, _ in tree], [vmap(v) for _, v in tree], default=vmap(fd))
        return F([_tup(c) for c, _ in tree], [build(sub, depth - 1) for _, sub in tree], default=vmap(fd))
    root = build(case["t"], D)
    ids = [chr(ord("A") + i) for i in range(D)]
    if case.get("tuple_rank"):
        k, ar = case["tuple_rank"]
        ids[k] = [f"{ids[k]}{j}" for j in range(ar)]
    kw = {"rank_ids": ids, "fiber": root, "default": vmap(dflt)}
    if case.get("shape"):
        kw["shape"] = [_tup(x) for x in case["shape"]]
    cur = ft.Tensor.fromFiber(**kw)
    fmt = case.get("fmt")
    if fmt:
        for rid, f in zip(ids, fmt):
            cur.setFormat(rid, f)
    shape = case.get("shape")
    stages, side = [], {}
    first = (_snap(cur.getRoot(), vk, dflt), _dflt_of(cur, vk, dflt), D)
    ok = True
    for i, op in enumerate(case["ops"]):
        st = dict(op)
        st["in"] = _snap(cur.getRoot(), vk, dflt)
        st["dflt"] = _dflt_of(cur, vk, dflt)
        st["depth"] = len(cur.getRankIds())
        if fmt and "U" in fmt:
            st["formatU"] = True
        if shape and i == 0 and not case.get("tuple_rank"):
            st["shape"] = shape
        if op["op"] == "unflatten":
            st["declared"] = cur.getShape(authoritative=True) is not None
        if op["op"] == "swizzle":
            ids_ = cur.getRankIds()
            st["ids_mixed"] = any(isinstance(x, list) for x in ids_) and any(not isinstance(x, list) for x in ids_)
        try:
            want_coords = None
            if op["op"] in ("flatten", "merge") and op["style"] in ("tuple", "pair"):
                want_coords = _expected_coords(cur.getRoot(), op["k"], op["levels"], op["style"])
            nxt = _apply(cur, op)
            out = {"tree": _snap(nxt.getRoot(), vk, dflt), "dflt": _dflt_of(nxt, vk, dflt), "depth": len(nxt.getRankIds())}
            m = H.rank_mirror(nxt)
            if m:
                side[f"rank_mirror[{i}:{op['op']}]"] = False
            if want_coords is not None:
                got = set(_coords_at(nxt.getRoot(), op["k"]))
                if st.get("formatU"):
                    # a "U" rank is iterated over its whole extent: coordinates that were not stored
                    # appear; only their form (nesting) is compared, with that of the stored paths
                    sig = lambda c: tuple(sig(x) for x in c) if isinstance(c, tuple) else 0
                    bad = bool(want_coords) and not {sig(c) for c in got} <= {sig(c) for c in want_coords}
                else:
                    bad = not got <= want_coords
                if bad:
                    side[f"coord_form[{i}:{op['style']}]"] = False
            # a declared (authoritative) shape of the result contains every stored coordinate
            if op["op"] in ("swizzle", "swap", "unflatten") or \
                    (op["op"] in ("flatten", "merge") and op["style"] in ("tuple", "pair", "linear")):
                rs = nxt.getShape(authoritative=True)
                if rs and op["op"] in ("flatten", "merge") and op["style"] == "tuple" and any(
                        isinstance(c, tuple) for j in range(op["levels"] + 1)
                        for c in _coords_at(cur.getRoot(), op["k"] + j)):
                    st["tuple_on_tuple"] = True
                if rs:
                    for j, ext in enumerate(rs):
                        if not all(_fits(c, ext) for c in _coords_at(nxt.getRoot(), j)):
                            side[f"coords_in_declared_shape[{i}:{op['op']}]"] = False
                            break
            # every fiber of the result stores its coordinates inside its own active range
            if op["op"] in ("swizzle", "swap", "unflatten", "split") and _outside_active(nxt.getRoot()):
                side[f"coords_in_active_range[{i}:{op['op']}]"] = False
            # a result is a tree: no fiber / leaf box is reachable through two positions, and none of
            # them is an object of the operand
            rids = _fiber_ids(nxt.getRoot(), [])
            if len(set(rids)) != len(rids):
                side[f"no_shared_objects[{i}:{op['op']}]"] = False
            if set(rids) & set(_fiber_ids(cur.getRoot(), [])):
                side[f"fresh_result[{i}:{op['op']}]"] = False
            if case.get("twice"):
                # the operand is left as it was, and the same call gives the same result again
                if _snap(cur.getRoot(), vk, dflt) != st["in"] or _dflt_of(cur, vk, dflt) != st["dflt"]:
                    side[f"operand_unchanged[{i}:{op['op']}]"] = False
                again = _apply(cur, op)
                if _snap(again.getRoot(), vk, dflt) != out["tree"] or _dflt_of(again, vk, dflt) != out["dflt"]:
                    side[f"repeatable[{i}:{op['op']}]"] = False
        except Exception as e:
            out = {"err": H.err_class(e)}
            nxt = None
        st["out"] = out
        stages.append(st)
        if nxt is None:
            ok = False
            break
        cur = nxt
    case["stages"] = stages
    case["impl"] = [s["out"] for s in stages]
    if ok and len(case["ops"]) == 3 and case["ops"][0]["op"] == "split":
        o0 = stages[0]["out"]
        case["roundtrip"] = {"depth": o0["depth"], "first": o0["tree"], "first_dflt": o0["dflt"],
                             "last": _snap(cur.getRoot(), vk, dflt), "last_dflt": _dflt_of(cur, vk, dflt)}
    elif ok and len(case["ops"]) == 2 and len(cur.getRankIds()) == D:
        case["roundtrip"] = {"depth": D, "first": first[0], "first_dflt": first[1],
                             "last": _snap(cur.getRoot(), vk, dflt), "last_dflt": _dflt_of(cur, vk, dflt)}
    case["side"] = side
    return case


def nontrivial(case, verdict):
    t = set(verdict.get("tags", []))
    return "OUT_OF_MODEL" not in t and "emptyTensor" not in t


def _failing_stage(case):
    for s in case.get("stages", []):
        if "err" in s["out"]:
            return s
    return None


def signature(case, verdict, failed):
    """classification of a failing case for known_findings.json.  A class is 'known' only when the
    implementation does exactly what the model of the defect predicts (verdict.agree)."""
    ops = "+".join(o["op"] for o in case["ops"])
    agree = bool(verdict.get("agree"))
    tags = set(verdict.get("tags", []))
    fs = _failing_stage(case)
    if failed and all(f.startswith("coords_in_declared_shape") for f in failed) and \
            all(s.get("tuple_on_tuple") for s in case.get("stages", [])
                if f"coords_in_declared_shape[{case['stages'].index(s)}:{s['op']}]" in failed):
        return "flatten:tuple-on-tuple:shape-not-spliced"
    if failed == ["spec"] and case.get("ucollide") and "formatU" in tags:
        return "merge:formatU:default-elements-take-part"
    if failed == ["spec"] and agree:
        if fs is not None and fs["op"] == "swizzle" and fs["out"]["err"] == "ERR:TypeError" and "mixedRankIds" in tags:
            return "swizzle:flattened-rank-ids:TypeError"
        if fs is not None and fs["op"] == "unflatten" and fs["out"]["err"] == "ERR:TypeError" \
                and "undeclaredEmptyRank" in tags:
            return "unflatten:empty-rank:undeclared-shape:TypeError"
        if fs is not None and fs["op"] in ("flatten", "merge") and fs["out"]["err"] == "ERR:TypeError" \
                and "actRangeClash" in tags and fs["levels"] >= 3 and fs["style"] in ("tuple", "pair"):
            return "flatten:levels>=3:tuple-active-range:TypeError"
        if "lastChildAttrs" in tags and case["ops"][0]["levels"] >= 3:
            e = fs["out"]["err"] if fs is not None else "wrong-default"
            if (fs is None and case["dflt"] != 0) or e == "ERR:AssertionError":
                return "flatten:levels>=3:attrs-from-empty-last-child:" + e
    st = fs["op"] + ":" + fs["out"]["err"] if fs is not None else "noerr"
    return f"{ops}:{st}:{'agree' if agree else 'DISAGREE'}:{'/'.join(sorted(failed))}"


def shrink_candidates(case):
    def shr(t):
        if not isinstance(t, list):
            return
        for i in range(len(t)):
            yield t[:i] + t[i + 1:]
        for i, e in enumerate(t):
            c, sub = e
            if isinstance(sub, list):
                for s2 in shr(sub):
                    yield t[:i] + [[c, s2]] + t[i + 1:]
            elif isinstance(sub, int) and sub not in (1, case["dflt"]):
                yield t[:i] + [[c, 1]] + t[i + 1:]
    for t2 in shr(case["t"]):
        c = {k: v for k, v in case.items() if k not in ("stages", "roundtrip")}
        c["t"] = t2
        yield c
    if len(case["ops"]) == 2:
        c = {k: v for k, v in case.items() if k not in ("stages", "roundtrip")}
        c["ops"] = case["ops"][:1]
        yield c
    if case.get("shape") and case["ops"][0].get("style") != "linear":
        c = {k: v for k, v in case.items() if k not in ("stages", "roundtrip", "shape")}
        yield c


def extra_evidence(results):
    ops = {}
    for c, v in results:
        key = "+".join(o["op"] + (":" + o["style"] if "style" in o else "") for o in c["ops"])
        ops[key] = ops.get(key, 0) + 1
    return {"pipelines": ops}
