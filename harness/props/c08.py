"""C08 — splits partition a fiber losslessly at exactly the specified boundaries.

Correspondence cases for splitUniform / splitNonUniform / splitEqual / splitUnEqual / `/` / `//`
on free fibers and on tensors, at split depth 0-2, with halos, relative coordinates, explicit /
declared / estimated active ranges and one nested re-split."""
import random, itertools
from harness import common as H

PROP = "C08"
RULE = ("cases = (kind of split + parameters, pre/post halo, relativeCoords, split depth k, payload depth d, "
        "tree, free fiber | tensor (depth= or rankid=), explicit active range | declared shape | estimated, "
        "optional second split one level down). small scope (seed-independent): every leaf fiber over 4 (quick) / "
        "5 (thorough) coordinates x {absent, explicit default, value} x every step 1..n+1 / every non-empty "
        "ascending boundary list within 0..n (+ one beyond the shape), the boundaries also handed over as a FIBER (every leaf "
        "fiber over 0..3 x {absent, explicit default, value}; fibers of fibers with empty / all-default sub-fibers) / size lists over {1,2,3} up to length 2 (and []) "
        "x halos 0..2 x several active ranges; all depth-2 trees over 3 root slots x {absent, empty, all-default, two "
        "fibers} at split depth 1; fibers of fibers (d=1) with empty / all-default sub-fibers; re-splits. random: "
        "coordinates up to 12 (quick) / 40 (thorough), negative coordinates with explicit ranges, depth 0-2. "
        "non-trivial = at least two partitions, or a halo-shared / clipped / dropped element, or a depth>0 / "
        "re-split case with presented elements")

OPS = ("uniform", "nonuniform", "equal", "unequal", "truediv", "floordiv")


# ---------------------------------------------------------------------------------------
# generators
# ---------------------------------------------------------------------------------------

def _base(op, t, **kw):
    c = {"prop": PROP, "op": op, "d": 0, "k": 0, "dflt": 0, "t": t, "kind": "free", "pre": 0, "post": 0,
         "rel": False, "act": None, "shape_decl": None, "tshape": None, "byrank": False, "re": None}
    c.update(kw)
    c["act_explicit"] = c["act"] is not None
    if c.get("fmtU") and c["kind"] == "tensor":
        if c.get("fmts") is None:
            c["fmts"] = ["C"] * c["k"] + ["U"] + ["C"] * c["d"]
        if c.get("re"):                       # both halves of a split rank inherit its format
            c["re"] = dict(c["re"], fmtU=True)
    return c


def _subsets(universe):
    for r in range(1, len(universe) + 1):
        for s in itertools.combinations(universe, r):
            yield list(s)


def _small_scope(tier):
    n = 4 if tier == "quick" else 5
    fibs = list(H.all_leaf_fibers(n, [0, 5]))            # absent / explicit default / value
    halos = [(a, b) for a in range(3) for b in range(3)]
    acts = [None, [1, 3], [2, n + 2], [-1, n]]
    # --- uniform: every step, every halo pair, active ranges; relative coords alternate
    i = 0
    for t in fibs:
        for step in range(1, n + 2):
            for pre, post in halos:
                for act in acts:
                    i += 1
                    yield _base("uniform", t, step=step, pre=pre, post=post, act=act, rel=bool(i & 1))
    # --- non-uniform: every non-empty ascending boundary list inside 0..n, one list with a boundary beyond
    splitss = list(_subsets(list(range(0, n + 1)))) + [[1, n + 2], [n + 3], [-2, 2], []]
    fibs3 = list(H.all_leaf_fibers(3, [0, 5]))
    splitss3 = list(_subsets(list(range(0, 4)))) + [[1, 5], [6], [-2, 2]]
    for t in fibs:
        for S in splitss:
            for pre, post in ((0, 0), (1, 0), (0, 1), (1, 1), (2, 0), (0, 2)) if tier == "quick" else halos:
                i += 1
                yield _base("nonuniform", t, splits=S, pre=pre, post=post, rel=bool(i & 1))
    for t in fibs3:
        for S in splitss3:
            for pre, post in halos:
                for act in ([1, 3], [0, 2], [2, 6]):
                    i += 1
                    yield _base("nonuniform", t, splits=S, pre=pre, post=post, act=act, rel=bool(i & 1))
    # --- non-uniform with the boundaries handed over as a FIBER: every leaf fiber over 0..3 x {absent, explicit
    #     default, value} (its stored coordinates are the boundaries, whatever the payloads), and fibers of
    #     fibers with empty / all-default sub-fibers
    bfibs = list(H.all_leaf_fibers(4, [0, 5]))
    for t in fibs:
        for bf in bfibs:
            i += 1
            pre, post = ((0, 0), (1, 1), (0, 2))[i % 3]
            yield _base("nonuniform", t, splits=[c for c, _ in bf], sfib=bf, sfd=1, pre=pre, post=post,
                        rel=bool(i & 1))
    bsubs = [None, [], [[0, 0]], [[0, 5]]]
    for combo in itertools.product(bsubs, repeat=3):
        bf = [[c + 1, sub] for c, sub in enumerate(combo) if sub is not None]
        for t in fibs3:
            i += 1
            yield _base("nonuniform", t, splits=[c for c, _ in bf], sfib=bf, sfd=2, post=i % 2)
            if t:
                yield _base("nonuniform", t, splits=[c for c, _ in bf], sfib=bf, sfd=2, kind="tensor",
                            byrank=bool(i & 1))
    # --- format "U" on the rank that is split (unowned fibers: their own rank attributes; tensors: setFormat,
    #     declared and estimated extents, other ranks "C" or "U"), restricted active ranges, halos
    for t in fibs:
        for step in (1, 2, 3):
            for pre, post in ((0, 0), (1, 1), (2, 0)):
                for act in (None, [1, 3], [-1, n]):
                    i += 1
                    yield _base("uniform", t, step=step, pre=pre, post=post, act=act, rel=bool(i & 1), fmtU=True)
        for step in (1, 2, 3):
            for pre, post in ((0, 0), (1, 1)):
                for act in (None, [1, 3]):
                    i += 1
                    yield _base("equal", t, step=step, pre=pre, post=post, act=act, rel=bool(i & 1), fmtU=True)
        for sizes in ([], [1], [2, 1], [1, 1, 1]):
            yield _base("unequal", t, sizes=sizes, fmtU=True)
            yield _base("unequal", t, sizes=sizes, fmtU=True, post=1, act=[1, 3])
        yield _base("truediv", t, n=2, fmtU=True)
        yield _base("floordiv", t, n=2, fmtU=True, shape_decl=n + 2)
        if t:
            for tshape in (None, [n + 2]):
                yield _base("uniform", t, step=2, pre=1, kind="tensor", tshape=tshape, fmtU=True)
                yield _base("nonuniform", t, splits=[1, 3], post=1, kind="tensor", tshape=tshape, fmtU=True, byrank=True)
                yield _base("equal", t, step=2, kind="tensor", tshape=tshape, fmtU=True)
                yield _base("floordiv", t, n=2, kind="tensor", tshape=tshape, fmtU=True)
                yield _base("uniform", t, step=2, kind="tensor", tshape=tshape, fmtU=True,
                            re=dict(op="uniform", step=1))
                yield _base("uniform", t, step=3, pre=1, rel=True, kind="tensor", tshape=tshape, fmtU=True,
                            re=dict(op="equal", step=1))
        yield _base("uniform", t, step=2, fmtU=True, re=dict(op="uniform", step=1))
        yield _base("uniform", t, step=3, post=1, rel=True, fmtU=True, re=dict(op="equal", step=2))
        yield _base("equal", t, step=2, fmtU=True, re=dict(op="nonuniform", splits=[0, 2]))
    for t in fibs3:
        for S in splitss3 + [[]]:
            for pre, post in ((0, 0), (1, 1), (0, 2)):
                for act in (None, [1, 3], [0, 5]):
                    i += 1
                    yield _base("nonuniform", t, splits=S, pre=pre, post=post, act=act, rel=bool(i & 1), fmtU=True)
    # --- a fiber default that differs from the owning tensor's; values equal to 0 under a non-zero default
    for t in H.all_leaf_fibers(4, [0, 7]):
        if not t:
            continue
        for dflt, fdflt in ((7, 0), (0, 7)):
            yield _base("uniform", t, step=2, post=1, kind="tensor", dflt=dflt, fdflt=fdflt)
            yield _base("equal", t, step=1, kind="tensor", dflt=dflt, fdflt=fdflt)
            yield _base("floordiv", t, n=2, kind="tensor", dflt=dflt, fdflt=fdflt)
            yield _base("unequal", t, sizes=[1], kind="tensor", dflt=dflt, fdflt=fdflt, fmtU=True)
    # --- float values and float defaults
    for t in fibs:
        for dflt in (0, 7):
            tt = [[c, (7 if (v == 0 and dflt == 7) else v)] for c, v in t]
            yield _base("uniform", tt, step=2, pre=1, dflt=dflt, vkind="float")
            yield _base("equal", tt, step=2, dflt=dflt, vkind="float", rel=True)
            yield _base("nonuniform", tt, splits=[1, 2], dflt=dflt, vkind="float", kind=("tensor" if tt else "free"))
            yield _base("floordiv", tt, n=2, dflt=dflt, vkind="float", fmtU=True)
    # --- the same object split, grown in place past its old extent, split again (the estimated extent moves)
    for t in fibs:
        if not t:
            continue
        tg = t[:-1] + [[t[-1][0] + 3, 5]]
        for kind in ("free", "tensor"):
            if kind == "tensor" and len(tg) < 2:
                continue
            yield _base("uniform", tg, step=2, post=1, kind=kind, grow=True)
            yield _base("equal", tg, step=2, kind=kind, grow=True)
            yield _base("truediv", tg, n=2, kind=kind, grow=True)
            yield _base("floordiv", tg, n=2, kind=kind, grow=True, fmtU=(kind == "free"))
    # --- multi-digit coordinates (9 / 10 / 100: numeric, not string order)
    for t in fibs3:
        tm = [[{0: 9, 1: 10, 2: 100}[c], v] for c, v in t]
        yield _base("uniform", tm, step=10)
        yield _base("uniform", tm, step=7, pre=2, post=3, rel=True)
        yield _base("nonuniform", tm, splits=[9, 10, 100])
        yield _base("nonuniform", tm, splits=[10, 99], sfib=[[10, 0], [99, 1]], sfd=1, pre=1)
        yield _base("equal", tm, step=1, kind=("tensor" if tm else "free"))
        yield _base("unequal", tm, sizes=[2])
    # --- tuple coordinates from an earlier flatten (free fibers; position space, halo 0, absolute): the case tree
    #     holds the order-preserving integer code a*W+b of the pair (a, b)
    W = 3
    for mask in range(1, 1 << 9):
        t = [[c, 5] for c in range(9) if mask >> c & 1]
        if len(t) > 5:
            continue
        yield _base("equal", t, step=1 + mask % 3, flat={"W": W})
        yield _base("unequal", t, sizes=[[1], [2, 1], []][mask % 3], flat={"W": W})
    for mask in (0b000010001, 0b101000110, 0b111111111):
        t = [[c, 5] for c in range(9) if mask >> c & 1]
        yield _base("equal", t, step=2, flat={"W": W}, kind="tensor")
    # --- equal / unequal in position space
    sizess = [[]] + [list(s) for r in (1, 2) for s in itertools.product((1, 2, 3), repeat=r)] + [[1, 1, 1]]
    for t in fibs:
        for step in range(1, n + 2):
            for pre, post in halos:
                for act in acts[:3]:
                    i += 1
                    yield _base("equal", t, step=step, pre=pre, post=post, act=act, rel=bool(i & 1))
        for sizes in sizess:
            for pre, post in ((0, 0), (1, 0), (0, 1), (2, 2)):
                for act in acts[:2]:
                    i += 1
                    yield _base("unequal", t, sizes=sizes, pre=pre, post=post, act=act, rel=bool(i & 1))
        # --- shorthands (declared shape larger than the estimate as well)
        for parts in range(1, n + 2):
            for sd in (None, n + 2):
                yield _base("truediv", t, n=parts, shape_decl=sd)
                yield _base("floordiv", t, n=parts, shape_decl=sd)
    # --- tensors at depth 0 (rank shape declared / estimated), depth= and rankid=
    for t in fibs:
        if not t:
            continue
        for tshape in (None, [n + 1], [max(1, n - 1)]):
            for byrank in (False, True):
                yield _base("uniform", t, step=2, pre=1, post=1, kind="tensor", tshape=tshape, byrank=byrank)
                yield _base("nonuniform", t, splits=[1, 3], pre=1, kind="tensor", tshape=tshape, byrank=byrank)
                yield _base("equal", t, step=2, post=1, kind="tensor", tshape=tshape, byrank=byrank)
                yield _base("unequal", t, sizes=[1, 2], kind="tensor", tshape=tshape, byrank=byrank)
                yield _base("truediv", t, n=2, kind="tensor", tshape=tshape)
                yield _base("floordiv", t, n=2, kind="tensor", tshape=tshape)
    # --- fibers of fibers (d = 1): empty and all-default sub-fibers are not presented
    subs = [None, [], [[0, 0]], [[0, 5]], [[1, 6], [2, 0]]]
    for combo in itertools.product(subs, repeat=4):
        t = [[c, s] for c, s in enumerate(combo) if s is not None]
        yield _base("uniform", t, d=1, step=2, post=1)
        yield _base("equal", t, d=1, step=2, pre=1)
        yield _base("floordiv", t, d=1, n=2)
        yield _base("unequal", t, d=1, sizes=[1, 2], rel=True)
    # --- split depth 1: every root over 3 slots x {absent, empty, all-default, two fibers}
    subs = [None, [], [[1, 0]], [[0, 1], [2, 2]], [[1, 3], [3, 4]]]
    for combo in itertools.product(subs, repeat=3):
        t = [[c, s] for c, s in enumerate(combo) if s is not None]
        for kind in ("free", "tensor"):
            if kind == "tensor" and not t:
                continue
            yield _base("uniform", t, k=1, step=2, kind=kind, byrank=(kind == "tensor"))
            yield _base("nonuniform", t, k=1, splits=[1, 2], pre=1, kind=kind)
            yield _base("equal", t, k=1, step=1, kind=kind, tshape=([3, 5] if kind == "tensor" else None))
            yield _base("unequal", t, k=1, sizes=[1], kind=kind)
    # --- tensor-level (and owned-root) splits addressed by rankid= alone and by depth= AND rankid= together,
    #     agreeing and disagreeing (rankid wins), all four flavours, every rank of 2- and 3-rank tensors
    t3 = [[0, [[0, [[0, 1], [2, 2]]], [2, [[1, 3]]]]], [1, []], [3, [[1, [[1, 4], [3, 5]]]]]]
    t2s = [[[c, s] for c, s in enumerate(combo) if s is not None]
           for combo in itertools.product([None, [], [[0, 1], [2, 2]], [[1, 3], [3, 4]]], repeat=2)]
    flav = [dict(op="uniform", step=2), dict(op="nonuniform", splits=[1, 2], pre=1), dict(op="equal", step=1),
            dict(op="unequal", sizes=[1])]
    for fl in flav:
        kw = dict(fl)
        op = kw.pop("op")
        for kk in range(3):                       # 3-rank tensor: rank addressed by rankid
            for da in (None, 0, 1, 2):            # depth= given as well (None: rankid alone)
                for via in (False, True):
                    yield _base(op, t3, k=kk, d=2 - kk, kind="tensor", byrank=True, depth_arg=da, via_root=via, **kw)
        for tt in t2s:
            if not tt:
                continue
            for kk in range(2):
                for da in (None, 0, 1):
                    yield _base(op, tt, k=kk, d=1 - kk, kind="tensor", byrank=True, depth_arg=da,
                                tshape=([4, 5] if da == 0 else None), **kw)
    # --- re-splits: partitions of partitions
    firsts = [dict(op="uniform", step=2), dict(op="uniform", step=3, pre=1), dict(op="equal", step=2),
              dict(op="nonuniform", splits=[0, 2]), dict(op="uniform", step=2, rel=True)]
    seconds = [dict(op="uniform", step=1), dict(op="uniform", step=2, post=1), dict(op="equal", step=1),
               dict(op="nonuniform", splits=[0, 1, 3]), dict(op="unequal", sizes=[1])]
    for t in fibs:
        for a in firsts:
            for b in seconds:
                for kind in ("free", "tensor"):
                    if kind == "tensor" and not t:
                        continue
                    kw = dict(a)
                    op = kw.pop("op")
                    yield _base(op, t, kind=kind, re=dict(b), **kw)


def _rand_params(rng, op, n):
    if op in ("uniform", "equal"):
        return {"step": rng.choice([1, 1, 2, 2, 3, 4, 5, 7, n + 1])}
    if op == "nonuniform":
        lo, hi = -2, n + 3
        cnt = rng.choice([1, 1, 2, 3, 4])
        sp = sorted(rng.sample(range(lo, hi), min(cnt, hi - lo)))
        r = rng.random()
        if r < 0.25:                                  # as a leaf fiber with explicit defaults
            return {"splits": sp, "sfd": 1, "sfib": [[c, rng.choice([0, 0, 3])] for c in sp]}
        if r < 0.4:                                   # as a fiber of fibers with empty / all-default sub-fibers
            return {"splits": sp, "sfd": 2, "sfib": [[c, rng.choice([[], [[0, 0]], [[1, 2]]])] for c in sp]}
        return {"splits": sp}
    if op == "unequal":
        return {"sizes": [rng.choice([1, 1, 2, 3, 4]) for _ in range(rng.choice([0, 1, 1, 2, 3]))]}
    return {"n": rng.choice([1, 2, 3, 4, 5])}


def _shift(tree, depth_to_shift, off):
    """shift the coordinates of the fibers at depth `depth_to_shift` by `off` (negative coordinates)"""
    if depth_to_shift == 0:
        return [[c + off, s] for c, s in tree]
    return [[c, _shift(s, depth_to_shift - 1, off)] for c, s in tree]


def _random(seed, tier):
    rng = random.Random(seed)
    nrand = 6000 if tier == "quick" else 150000
    for i in range(nrand):
        op = OPS[i % 6]
        k = rng.choice([0, 0, 0, 1, 1, 2])
        if op in ("truediv", "floordiv"):
            k = 0
        d = rng.choice([0, 0, 0, 1])
        dflt = rng.choice([0, 0, 7])
        n = rng.choice([3, 5, 8, 12]) if tier == "quick" else rng.choice([3, 5, 8, 12, 20, 40])
        n = min(n, {1: 40, 2: 12, 3: 6, 4: 4}[k + 1 + d])          # keep deep trees small
        t = H.gen_tree(rng, k + 1 + d, n, (1, 2, -3, 7, 0), dflt)
        c = _base(op, t, d=d, k=k, dflt=dflt, pre=rng.choice([0, 0, 1, 2, 4]), post=rng.choice([0, 0, 1, 3]),
                  rel=rng.random() < 0.3, **_rand_params(rng, op, n))
        if op in ("truediv", "floordiv"):           # the shorthands take no halo / relative arguments
            c.update(pre=0, post=0, rel=False)
        r = rng.random()
        if k == 0 and r < 0.35:
            a = rng.randrange(-3, n)
            c["act"] = [a, a + rng.randrange(1, n + 3)]
            c["act_explicit"] = True
            if op not in ("truediv",) and rng.random() < 0.5:
                c["t"] = _shift(t, 0, -rng.randrange(1, 6))            # negative coordinates
        elif k == 0 and r < 0.5:
            c["shape_decl"] = rng.randrange(1, n + 4)
        elif r < 0.8 and t:
            c["kind"] = "tensor"
            c["byrank"] = rng.random() < 0.5
            if c["byrank"] and rng.random() < 0.5:
                c["depth_arg"] = rng.randrange(0, k + 1 + d)
            if c["byrank"] and rng.random() < 0.2:
                c["via_root"] = True
            if rng.random() < 0.5:
                c["tshape"] = [rng.randrange(max(1, n - 2), n + 3) for _ in range(k + 1 + d)]
        if rng.random() < 0.2:
            c["fmtU"] = True
            if c["kind"] == "tensor":
                c["fmts"] = [rng.choice(["C", "U"]) for _ in range(k + 1 + d)]
                c["fmts"][k] = "U"
        if c["kind"] == "tensor" and rng.random() < 0.15:
            c["fdflt"] = 7 - dflt
        if rng.random() < 0.15:
            c["vkind"] = "float"
        if k == 0 and d == 0 and len(c["t"]) > 1 and rng.random() < 0.1:
            c["grow"] = True
        if k == 0 and rng.random() < 0.25 and op not in ("truediv", "floordiv"):
            op2 = rng.choice(OPS[:4])
            re = {"op": op2, "pre": rng.choice([0, 0, 1]), "post": rng.choice([0, 0, 2]),
                  "rel": rng.random() < 0.2}
            re.update(_rand_params(rng, op2, n))
            if c.get("fmtU") and c["kind"] == "tensor":
                re["fmtU"] = True
            c["re"] = re
        yield c


def gen(seed, tier):
    for i, c in enumerate(_small_scope(tier)):
        if i % 12 == 0:
            c["twice"] = True          # state left behind / sharing with the operand / repeatability
        yield c
    for c in _random(seed, tier):
        c["twice"] = True
        yield c


# ---------------------------------------------------------------------------------------
# running the real code
# ---------------------------------------------------------------------------------------

def _leafval(case, v):
    """value kinds: ints, or the same numbers as floats (float default too)"""
    return float(v) if case.get("vkind") == "float" else v


def _mk(case, tree, depth, dflt, top_kw=None):
    F = H.ft().Fiber
    kw = top_kw or {}
    if depth == 1:
        return F([c for c, _ in tree], [_leafval(case, v) for _, v in tree], default=_leafval(case, dflt), **kw)
    return F([c for c, _ in tree], [_mk(case, s, depth - 1, dflt) for _, s in tree],
             default=_leafval(case, dflt), **kw)


def _build(case, tree=None):
    depth = case["k"] + 1 + case["d"]
    t = case["t"] if tree is None else tree
    # a fiber may carry a default of its own that differs from the owning tensor's
    dflt = case["fdflt"] if (case["kind"] == "tensor" and case.get("fdflt") is not None) else case["dflt"]
    kw = {}
    if case.get("act_explicit") and case["kind"] == "free":
        kw["active_range"] = tuple(case["act"])
    if case.get("shape_decl") is not None:
        kw["shape"] = case["shape_decl"]
    if case.get("flat"):
        # tuple coordinates from an earlier flatten: coordinate c of the (integer-encoded) case tree
        # stands for the pair (c // W, c % W)
        W = case["flat"]["W"]
        outer = {}
        for c, v in t:
            outer.setdefault(c // W, []).append([c % W, v])
        return _mk(case, [[a, sub] for a, sub in sorted(outer.items())], 2, dflt)
    return _mk(case, t, depth, dflt, kw)


def _enc(x, W):
    """order-preserving integer code of a coordinate pair"""
    if isinstance(x, (tuple, list)) and len(x) == 2 and all(isinstance(y, int) for y in x):
        return x[0] * W + x[1]
    return x


def _enc_obs(o, W):
    """encode every coordinate pair of an observation"""
    def tree(t, lvl):
        if isinstance(t, list):
            return [[(_enc(c, W) if lvl < 2 else c), tree(p, lvl + 1)] for c, p in t]
        return t
    o["tree"] = tree(o["tree"], 0)
    o["uact"] = [[_enc(a, W), _enc(b, W)] for a, b in o["uact"]]
    o["lact"] = [[[_enc(a, W), _enc(b, W)] for a, b in u] for u in o["lact"]]
    return o


def _leaf_types(root, acc):
    """types of the leaf values of a result"""
    Fiber, Payload = H.ft().Fiber, H.ft().Payload
    if isinstance(root, Fiber):
        for p in root.payloads:
            _leaf_types(p, acc)
    elif isinstance(root, Payload):
        acc.add((type(root.value).__name__, root.value))
    else:
        acc.add(("raw:" + type(root).__name__, None))
    return acc


def _objects(root, acc):
    """ids of every Fiber / Payload / list object reachable from root"""
    Fiber = H.ft().Fiber
    acc[id(root)] = root
    if isinstance(root, Fiber):
        acc[id(root.coords)] = root.coords
        acc[id(root.payloads)] = root.payloads
        for p in root.payloads:
            _objects(p, acc)
    return acc


def _call(obj, spec, depth, rankid):
    """apply one split (a dict with op and parameters) to a Fiber or a Tensor"""
    op = spec["op"]
    if op == "truediv":
        return obj / spec["n"]
    if op == "floordiv":
        return obj // spec["n"]
    kw = {"relativeCoords": bool(spec.get("rel", False)), "pre_halo": spec.get("pre", 0),
          "post_halo": spec.get("post", 0)}
    if rankid is not None:
        kw["rankid"] = rankid                    # names the rank; documented to override depth=
        if spec.get("depth_arg") is not None:
            kw["depth"] = spec["depth_arg"]      # given as well (agreeing or not)
    else:
        kw["depth"] = depth
    if op == "uniform":
        return obj.splitUniform(spec["step"], **kw)
    if op == "nonuniform":
        if spec.get("sfib") is not None:           # the boundaries handed over as a Fiber
            return obj.splitNonUniform(H.build_fiber(spec["sfib"], spec.get("sfd", 1), 0), **kw)
        return obj.splitNonUniform(list(spec["splits"]), **kw)
    if op == "equal":
        return obj.splitEqual(spec["step"], **kw)
    if op == "unequal":
        return obj.splitUnEqual(list(spec["sizes"]), **kw)
    raise ValueError(op)


def _fibers_at(root, k):
    """the Fiber objects at depth k below root, raw storage order"""
    Fiber = H.ft().Fiber
    level = [root]
    for _ in range(k):
        nxt = []
        for f in level:
            if not isinstance(f, Fiber):
                raise TypeError("not a fiber")
            nxt.extend(f.payloads)
        level = nxt
    for f in level:
        if not isinstance(f, Fiber):
            raise TypeError("not a fiber")
    return level


def _leafdepths(s, acc, lvl=0):
    """set of depths at which leaves sit (an empty fiber fits any depth)"""
    if isinstance(s, list):
        for _, p in s:
            _leafdepths(p, acc, lvl + 1)
    else:
        acc.add(lvl)
    return acc


def _observe(root, k, total_depth, re):
    tree = H.snapshot(root)
    obs = {"tree": tree, "uact": [], "lact": []}
    if re:
        obs["lact2"] = []
    if _leafdepths(tree, set()) - {total_depth}:
        return obs                     # not a tree of the expected uniform depth: raw tree only
    try:
        uppers = _fibers_at(root, k)
        obs["uact"] = [list(u.getActive()) for u in uppers]
        obs["lact"] = [[list(l.getActive()) for l in u.payloads] for u in uppers]
        if re:
            obs["lact2"] = [[[list(m.getActive()) for m in l.payloads] for l in u.payloads] for u in uppers]
    except Exception:
        obs["uact"], obs["lact"] = [], []
        if re:
            obs["lact2"] = []
    return obs


def _set_formats(case, obj, k, ids):
    """format "U" on the rank that is split (and whatever the case says about the other ranks)"""
    if case["kind"] == "tensor":
        fmts = case.get("fmts") or ["C"] * len(ids)
        for rid, fm in zip(ids, fmts):
            obj.setFormat(rid, fm)
    elif case.get("fmtU"):
        for f in _fibers_at(obj, k):
            f.getRankAttrs().setFormat("U")


def run(case):
    ft = H.ft()
    k, d = case["k"], case["d"]
    grow = bool(case.get("grow")) and len(case["t"]) > 0 and k == 0 and d == 0 and not case.get("flat")
    f = _build(case, case["t"][:-1]) if grow else _build(case)
    obj, ids = f, None
    if case.get("flat"):
        f = f.flattenRanks() if case["kind"] == "free" else f
        obj = f
    if case["kind"] == "tensor":
        nranks = 2 if case.get("flat") else k + 1 + d
        ids = [f"R{nranks - 1 - i}" for i in range(nranks)]
        obj = ft.Tensor.fromFiber(rank_ids=ids, fiber=f, shape=case.get("tshape"),
                                  default=_leafval(case, case["dflt"]))
        if case.get("flat"):
            obj = obj.flattenRanks()
            ids = obj.getRankIds()
    if not case.get("flat"):
        _set_formats(case, obj, k, ids)
    root0 = obj.getRoot() if case["kind"] == "tensor" else obj
    rankid = ids[k] if (ids and case.get("byrank")) else None
    via_root = bool(case.get("via_root")) and case["kind"] == "tensor" and not case.get("re")
    if case["kind"] == "tensor" and not via_root and not case.get("flat"):
        case["ids0"] = list(ids)
    else:
        case.pop("ids0", None)
    target = root0 if via_root else obj          # the owned root fiber itself can be split by rankid too
    side = {}
    try:
        if grow:
            # the same object split, grown in place past its old extent, and split again
            _call(target, case, k, rankid)
            c, v = case["t"][-1]
            root0.append(c, _leafval(case, v))
        if case["kind"] == "tensor":
            # owned fibers take their active range from the rank (declared or estimated rank shape)
            seen = {tuple(x.getActive()) for x in _fibers_at(root0, k)}
            case["act"] = list(seen.pop()) if len(seen) == 1 else None
        elif not case.get("act_explicit"):
            case["act"] = [0, case["shape_decl"]] if case.get("shape_decl") else None
        if case.get("flat"):
            a, b = root0.getActive()
            case["act"] = [_enc(a, case["flat"]["W"]), _enc(b, case["flat"]["W"])]
        if case["op"] == "truediv":
            case["shape"] = root0.getShape(all_ranks=False)
        before = H.snapshot(root0) if case.get("twice") else None
        r = _call(target, case, k, rankid)
        total = k + 2 + d
        if case.get("re"):
            r = _call(r, case["re"], 1, None)
            total += 1
        is_tensor = case["kind"] == "tensor" and not via_root
        root = r.getRoot() if is_tensor else r
        obs = _observe(root, k, total, bool(case.get("re")))
        if "ids0" in case:
            obs["ids"] = [str(x) for x in r.getRankIds()]
        if case.get("twice"):
            # state left behind: the operands are untouched, nothing of the result is shared with them,
            # and the same call on the same object gives the same result again
            side["operand_unchanged"] = H.snapshot(root0) == before
            mine = _objects(root0, {})
            side["result_shares_nothing"] = not any(i in mine for i in _objects(root, {}))
            r2 = _call(target, case, k, rankid)
            if case.get("re"):
                r2 = _call(r2, case["re"], 1, None)
            root2 = r2.getRoot() if is_tensor else r2
            obs2 = _observe(root2, k, total, bool(case.get("re")))
            if "ids0" in case:
                obs2["ids"] = [str(x) for x in r2.getRankIds()]
            side["second_call_same"] = obs2 == obs
        if case.get("vkind") == "float":
            # the stored values travel unchanged (a default delivered by a "U" rank is the rank's own object)
            side["float_values_kept"] = all(ty == "float" for ty, v in _leaf_types(root, set())
                                            if not (isinstance(ty, str) and ty != "float" and v == case["dflt"]))
        if case.get("flat"):
            obs = _enc_obs(obs, case["flat"]["W"])
        case["impl"] = obs
    except Exception as e:              # a crash on a legal input is an observation
        case["impl"] = {"err": H.err_class(e)}
        case["implerr"] = H.err_class(e)
    if side:
        case["side"] = side
    return case


# ---------------------------------------------------------------------------------------
# classification
# ---------------------------------------------------------------------------------------

def nontrivial(case, verdict):
    t = set(verdict.get("tags", []))
    if "OUT_OF_MODEL" in t:
        return False
    if t & {"multi", "shared", "clipped", "dropped", "crash:min-empty"}:
        return True
    return bool(t & {"depth1", "depth2", "resplit"}) and ("some-presented" in t or "resplit" in t)


def signature(case, verdict, failed):
    """classification of a failing case"""
    if case.get("flat") and case["kind"] == "tensor" and case.get("implerr") == "ERR:TypeError":
        return "tensor:split-of-flattened-rank:TypeError"
    return f"{case['op']}:k{case['k']}:{case['kind']}:{'re:' if case.get('re') else ''}{'/'.join(sorted(failed))}"


def shrink_candidates(case):
    t = case["t"]

    def tree_shrinks(t):
        if not isinstance(t, list):
            return
        for i in range(len(t)):
            yield t[:i] + t[i + 1:]
        for i, e in enumerate(t):
            c, sub = e
            if isinstance(sub, list):
                for s2 in tree_shrinks(sub):
                    yield t[:i] + [[c, s2]] + t[i + 1:]
    for t2 in tree_shrinks(t):
        if case["kind"] == "tensor" and not t2:
            continue
        c = dict(case)
        c["t"] = t2
        yield c
    for key in ("pre", "post"):
        if case.get(key, 0) > 0:
            c = dict(case)
            c[key] = case[key] - 1
            yield c
    if case.get("rel"):
        c = dict(case)
        c["rel"] = False
        yield c
    if case.get("re"):
        c = dict(case)
        c["re"] = None
        yield c
    if case.get("sfib") is not None:
        for i in range(len(case["sfib"])):
            c = dict(case)
            c["sfib"] = case["sfib"][:i] + case["sfib"][i + 1:]
            c["splits"] = [x for x, _ in c["sfib"]]
            yield c
    for key in ("splits", "sizes"):
        if case.get("sfib") is not None and key == "splits":
            continue
        if key in case and len(case[key]) > (1 if key == "splits" else 0):
            for i in range(len(case[key])):
                c = dict(case)
                c[key] = case[key][:i] + case[key][i + 1:]
                if key == "sizes" and c[key] == [] and case[key] != []:
                    continue
                yield c
    if case.get("step", 1) > 1:
        c = dict(case)
        c["step"] = case["step"] - 1
        yield c


def extra_evidence(results):
    ops, kinds, depths, crashes = {}, {}, {}, 0
    for c, v in results:
        ops[c["op"]] = ops.get(c["op"], 0) + 1
        kinds[c["kind"]] = kinds.get(c["kind"], 0) + 1
        key = f"k{c['k']}d{c['d']}" + ("+re" if c.get("re") else "")
        depths[key] = depths.get(key, 0) + 1
        if "implerr" in c:
            crashes += 1
    return {"input_distribution": {"op": ops, "kind": kinds, "depth": depths, "impl_exceptions": crashes}}
