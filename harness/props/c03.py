"""C03 — point access behaves like a map from points to values."""
import random, itertools
from harness import common as H

PROP = "C03"
RULE = ("cases = (initial tree of depth 1-3 incl. explicit defaults / empty sub-fibers, interleaving of getPayload / "
        "getPayload(default=, allocate=False) / prefix reads / getPayloadRef / assignment / in-place add / "
        "getPositionRef at full and partial points), depth>=2 trees are tensor-owned; plus getPosition on all "
        "leaf fibers over 4 coordinates x every coordinate x every start_pos. non-trivial = history contains a "
        "write and a later read, or a position query with a start_pos, or the tree holds residue")


def _point(rng, d, n):
    return [rng.randrange(-1, n + 1) for _ in range(d)]


def gen_ops(rng, d, n, length, dflt=0):
    ops, pts = [], []
    for _ in range(length):
        if d >= 2 and rng.random() < 0.05:
            # in-place addition through the handle of a LEAF FIBER (a partial point of length d-1): first a fiber,
            # which leaves that operand's active range on the stored sub-fiber, then a scalar, which must still
            # reach every coordinate of the rank's shape — followed by a read at the far end
            pre = _point(rng, d - 1, n)
            if rng.random() < 0.7:
                ops.append({"k": "iaddfp", "p": pre, "f": H.gen_tree(rng, 1, max(1, n - 1), (1, 2, -3), dflt)})
            ops.append({"k": "iaddsp", "p": pre, "v": rng.choice([1, -1, 2])})
            ops.append({"k": "get", "p": pre + [rng.randrange(0, n + 1)]})
            pts.append(pre + [n - 1])
            continue
        r = rng.random()
        # re-use earlier points often so that writes are read back
        p = rng.choice(pts) if pts and rng.random() < 0.5 else _point(rng, d, n)
        pts.append(p)
        if d >= 2 and rng.random() < 0.08:
            # assignment at a partial point: the fiber under another prefix of the same tensor, or one of
            # the case's stand-alone source fibers (re-used, so that sharing of payload boxes shows)
            ln = rng.randrange(1, d)
            src = ({"from": _point(rng, ln, n)} if rng.random() < 0.5 else {"lit": ln})
            ops.append({"k": "assignp", "p": p[:ln], **src})
        elif rng.random() < 0.06:
            # in-place scaling through the handle of a partial point (the root itself for an empty prefix):
            # every non-empty leaf below it is updated where it is — handles held for points below stay valid
            ops.append({"k": "imulp", "p": p[:rng.randrange(0, d)], "v": rng.choice([2, 3, -1, 0, 1])})
        elif r < 0.28:
            ops.append({"k": "get", "p": p})
        elif r < 0.36:
            ops.append({"k": "getd", "p": p, "v": rng.choice([0, 9, -1])})
        elif r < 0.46 and d >= 2:
            ops.append({"k": "getprefix", "p": p[:rng.randrange(1, d)]})
        elif r < 0.58:
            ops.append({"k": "ref", "p": p})
        elif r < 0.78:
            o = {"k": "assign", "p": p, "v": rng.choice([0, 1, 2, 7, -3]), "held": rng.random() < 0.3}
            r6 = rng.random()
            if r6 < 0.15:
                o["how"] = "v"              # ref.v = scalar
            elif r6 < 0.35:
                o["how"] = "vfrom"          # ref.v = <the payload object of another point>: a copy of its value
                o["from"] = rng.choice(pts) if pts else _point(rng, d, n)
            ops.append(o)
        elif r < 0.94:
            # in-place arithmetic through the handle: += or -= (the model sees the signed amount)
            ops.append({"k": "iadd", "p": p, "v": rng.choice([1, -1, 2, 0]), "held": rng.random() < 0.3,
                        # "elem": through the element found by position (e = fiber[pos]; e += v),
                        # "item": fiber[pos] += v — both only where the point is stored, else as "iadd"
                        # "box" / "subbox": the amount handed over boxed (ref += Payload(v)); "divbox": ref *= Payload(2),
                        # ref /= Payload(2), ref <<= int(ref.value) first - content-neutral on integers, but every
                        # in-place operator of the box (+= -= *= /= <<=) has to keep writing through the handle,
                        # with a scalar and with a boxed right-hand side alike (seed C03-19)
                        "how": rng.choice(["iadd", "iadd", "isub", "elem", "item", "box", "subbox", "divbox"])})
        else:
            ops.append({"k": "posref", "p": p[:1]})
    return ops


def gen(seed, tier):
    # positions: exhaustive small scope
    n = 4
    for f in H.all_leaf_fibers(n, [0, 1]):
        for c in range(-1, n + 1):
            yield {"prop": PROP, "op": "pos", "t": f, "c": c}
            for sp in range(0, len(f)):
                yield {"prop": PROP, "op": "pos", "t": f, "c": c, "sp": sp}
                # a read with the same shortcut returns the value at c (or the default), never anything else
                yield {"prop": PROP, "op": "pos", "t": f, "c": c, "sp": sp, "via": "get"}
            # getPositionRef: the position returned must be where the element then is
            yield {"prop": PROP, "op": "pos", "t": f, "c": c, "ref": True}
            for sp in range(0, len(f)):
                yield {"prop": PROP, "op": "pos", "t": f, "c": c, "sp": sp, "ref": True}
                # getPayloadRef with the same shortcut: the handle must be the payload stored at c
                yield {"prop": PROP, "op": "pos", "t": f, "c": c, "sp": sp, "ref": True, "via": "payload"}
    # short exhaustive-ish histories on a tiny tree: every pair of ops over 2 points
    pts = [[0], [1], [2]]
    alphabet = []
    for p in pts:
        alphabet += [{"k": "get", "p": p}, {"k": "ref", "p": p}, {"k": "assign", "p": p, "v": 5},
                     {"k": "assign", "p": p, "v": 0}, {"k": "iadd", "p": p, "v": 1}]
    for t in ([], [[1, 3]], [[0, 0], [2, 4]]):
        for o1 in alphabet:
            for o2 in alphabet:
                yield {"prop": PROP, "op": "points", "d": 1, "dflt": 0, "t": t, "kind": "free",
                       "ops": [o1, o2, {"k": "get", "p": [0]}, {"k": "get", "p": [1]}, {"k": "get", "p": [2]}]}
    rng = random.Random(seed)
    nrand = 16000 if tier == "quick" else 50000
    for i in range(nrand):
        d = rng.choice([1, 2, 2, 3])
        dflt = rng.choice([0, 0, 7])
        n = rng.choice([2, 3, 4])
        t = H.gen_tree(rng, d, n, (1, 2, -3, 7, 0), dflt)
        kind = "owned" if d >= 2 or rng.random() < 0.5 else "free"
        length = rng.choice([3, 6, 10]) if tier == "quick" else rng.choice([5, 12, 40])
        ops = gen_ops(rng, d, n, length, dflt)
        # configuration that must not matter to point access: per-rank formats (not together with fiber
        # assignment, which copies what an uncompressed source PRESENTS, explicit defaults included), a
        # declared shape, fibers built with their own default 0 inside a tensor of another default
        r4 = rng.random()
        cfg = {}
        if r4 < 0.25:
            # a declared shape — sometimes smaller than coordinates that get written (the library does not
            # check coordinates against it, and point access must not depend on it)
            cfg = {"shape": [rng.choice([n + 1, n + 2, 2, 1])] * d}
            if not any(o["k"] in ("assignp", "imulp", "iaddfp", "iaddsp") for o in ops):
                cfg["fmt"] = [rng.choice("CU") for _ in range(d)]
        elif r4 < 0.4:
            cfg = {"fib0": True}
        yield {"prop": PROP, "op": "points", "d": d, "dflt": dflt, "t": t, "kind": kind,
               # the same default handed over as a float (7.0): defaults of other scalar types take other
               # code paths when they are copied / boxed
               "fdflt": rng.random() < 0.2, "cfg": cfg, "ops": ops,
               "srcs": {str(ln): H.gen_tree(rng, d - ln, n, (1, 2, -3, 7, 0), dflt) for ln in range(1, d)}}


def _stored_leaf(root, p):
    """(leaf fiber, position) if every coordinate of the point p is stored, else None (raw walk, no accessor)"""
    Fiber = H.ft().Fiber
    f = root
    for c in p[:-1]:
        if c not in f.coords:
            return None
        f = f.payloads[f.coords.index(c)]
        if not isinstance(f, Fiber):
            return None
    if p[-1] not in f.coords:
        return None
    return f, f.coords.index(p[-1])


def _ranks(t):
    return [sorted(id(f) for f in r.getFibers()) for r in t.ranks]


def run(case):
    ft = H.ft()
    if case["op"] == "pos":
        f = H.build_fiber(case["t"], 1, 0)
        before = H.snapshot(f)
        side = {}
        meth = f.getPositionRef if case.get("ref") else f.getPosition
        try:
            if case.get("via") == "get":
                case["impl"] = H.snapshot(f.getPayload(case["c"], start_pos=case["sp"]))
            elif case.get("via") == "payload":
                h = f.getPayloadRef(case["c"], start_pos=case["sp"])
                case["impl"] = H.pos_of(f.payloads, h)      # where the handle is stored (identity)
                if case["impl"] < 0:
                    case["impl"] = None
            elif "sp" in case:
                case["impl"] = meth(case["c"], start_pos=case["sp"])
            else:
                case["impl"] = meth(case["c"])
        except AssertionError:
            case["impl"] = "rejected"
        if case.get("ref"):
            case["after"] = H.snapshot(f)
            case["dflt"] = 0
        else:
            side["read_leaves_tree_unchanged"] = H.snapshot(f) == before
        case["side"] = side
        return case
    d, dflt = case["d"], case["dflt"]
    if case.get("fdflt"):
        dflt = float(dflt)
    cfg = case.get("cfg") or {}
    owned = case["kind"] == "owned"
    root = H.build_fiber(case["t"], d, 0 if (owned and cfg.get("fib0") and not case.get("fdflt")) else dflt)
    tensor = None
    if owned:
        ids = [f"R{d - 1 - k}" for k in range(d)]
        tensor = ft.Tensor.fromFiber(rank_ids=ids, fiber=root, default=dflt, shape=cfg.get("shape"))
        for rid, fm in zip(ids, cfg.get("fmt", [])):
            tensor.setFormat(rid, fm)
        root = tensor.getRoot()
    acc = tensor if tensor is not None else root
    obs, side = [], {}
    reads_pure, ranks_pure = True, True
    held = {}       # point -> handle obtained earlier (still the stored payload unless a fiber assignment replaced it)
    srcs = {int(ln): H.build_fiber(t, d - int(ln), dflt) for ln, t in case.get("srcs", {}).items()}

    def handle(p, use_held):
        h = held.get(tuple(p)) if use_held else None
        if h is None:
            h = acc.getPayloadRef(*p)
            held[tuple(p)] = h
        return h
    for op in case["ops"]:
        k, p = op["k"], op["p"]
        before = H.snapshot(root)
        rb = _ranks(tensor) if tensor is not None else None
        try:
            if k == "get":
                out = H.snapshot(acc.getPayload(*p))
            elif k == "getd":
                out = H.snapshot(acc.getPayload(*p, default=op["v"], allocate=False))
            elif k == "getprefix":
                out = H.snapshot(acc.getPayload(*p))
            elif k == "ref":
                out = H.snapshot(acc.getPayloadRef(*p))
            elif k == "assign":
                if op.get("how") == "vfrom" and len(op["from"]) == len(p):
                    src = handle(op["from"], True)      # creates the source point if need be
                    op["v"] = H.snapshot(src)
                    ref = handle(p, op.get("held"))
                    ref.v = src
                elif op.get("how") in ("v", "vfrom"):
                    op.pop("from", None)
                    ref = handle(p, op.get("held"))
                    ref.v = op["v"]
                else:
                    ref = handle(p, op.get("held"))
                    ref <<= op["v"]
                out = H.snapshot(acc.getPayloadRef(*p))
            elif k == "iadd" and op.get("how") in ("elem", "item") and _stored_leaf(root, p) is not None:
                leaf, pos = _stored_leaf(root, p)
                if op["how"] == "elem":
                    e = leaf[pos]
                    e += op["v"]
                else:
                    leaf[pos] += op["v"]
                out = H.snapshot(acc.getPayloadRef(*p))
            elif k == "iadd":
                ref = handle(p, op.get("held"))
                P = H.ft().Payload
                intval = isinstance(ref, P) and type(ref.value) is int
                if op.get("how") == "isub":
                    ref -= -op["v"]
                elif op.get("how") == "box" and intval:
                    ref += P(op["v"])
                elif op.get("how") == "subbox" and intval:
                    ref -= P(-op["v"])
                elif op.get("how") == "divbox" and intval:
                    ref *= P(2)
                    ref /= P(2)
                    ref <<= int(ref.value)
                    ref += op["v"]
                else:
                    ref += op["v"]
                out = H.snapshot(acc.getPayloadRef(*p))
            elif k == "assignp":
                src = acc.getPayload(*op["from"]) if "from" in op else srcs[op["lit"]]
                if "from" in op and op["from"] == p:
                    src = srcs[len(p)]          # f <<= f is not an assignment from another fiber
                op["src"] = H.snapshot(src)
                src_before = op["src"]
                ref = acc.getPayloadRef(*p)
                ref <<= src
                for q in [q for q in held if list(q[:len(p)]) == p]:
                    del held[q]                 # the boxes under p were replaced
                out = H.snapshot(acc.getPayload(*p))
                if H.snapshot(src) != src_before:
                    side["assignment_source_unchanged"] = False
            elif k in ("iaddfp", "iaddsp"):
                ref = acc.getPayloadRef(*p)             # the stored leaf fiber under the prefix
                if k == "iaddfp":
                    ref += H.build_fiber(op["f"], 1, dflt)
                    # `+= fiber` is a populate loop: an element whose sum is the default is removed from the tree,
                    # so a handle held for it no longer denotes a stored payload
                    for q in [q for q in held if list(q[:len(p)]) == p]:
                        del held[q]
                else:
                    op["shape"] = int(ref.getShape(all_ranks=False) or 0)   # the extent `+= scalar` must cover
                    ref += op["v"]
                out = H.snapshot(acc.getPayload(*p))
            elif k == "imulp":
                ref = acc.getPayloadRef(*p) if p else root
                ref *= op["v"]
                out = H.snapshot(acc.getPayload(*p)) if p else H.snapshot(root)
            elif k == "posref":
                out = root.getPositionRef(p[0])
            else:
                raise ValueError(k)
        except Exception as e:
            out = H.err_class(e)
        snap = H.snapshot(root)
        if k in ("get", "getd", "getprefix"):
            reads_pure = reads_pure and snap == before
            if tensor is not None:
                ranks_pure = ranks_pure and _ranks(tensor) == rb
        obs.append({"out": out, "snap": snap})
    case["impl"] = obs
    side["reads_leave_tree_unchanged"] = reads_pure
    side["reads_leave_rank_lists_unchanged"] = ranks_pure
    case["side"] = side
    return case


def nontrivial(case, verdict):
    t = set(verdict.get("tags", []))
    if case["op"] == "pos":
        return "start_pos" in t or "found" in t
    ks = [o["k"] for o in case["ops"]]
    wrote = [i for i, k in enumerate(ks) if k in ("assign", "iadd", "assignp", "imulp", "iaddfp", "iaddsp")]
    read_after = wrote and any(k in ("get", "getd", "getprefix") for k in ks[wrote[0] + 1:])
    return bool(read_after) or "residue" in t


def signature(case, verdict, failed):
    why = verdict.get("why", "")
    kind = why.split(" ")[0] if why else ""
    return f"{case['op']}:{'/'.join(sorted(failed))}:{kind}"


