"""C10 — value-returning operations never disturb or alias their operands; readers are pure.

The observation is the *object graph* of the real Python objects: every mutable object (Tensor, Rank,
RankAttrs, Fiber, Payload box, list) reachable from a root becomes a heap cell `[addr, "Kind|scalar
fields", [addresses of the mutable objects it references]]` (addr = object identity renumbered; the
`_saved_pos` statistics are not part of the state).  The Lean driver evaluates, with the definitions the
theorems of FtProofs/C10.lean are about, on that graph:

value family  operand graph before == after (id-free canonical form), reach sets of operand and result closed
              and disjoint (`sepB`), then follow-up mutations applied to either side write only objects of
              their own side (`validB`) and the final heap equals each side's independent replay
              (`heap_frame_run`); each modelled follow-up also moves its own tree as the C01 step model says.
read family   the graph reachable from the operand (tree, rank lists, attributes) is identical, object by
              object, before and after the read; renderings are pixel-identical (side observation).
"""
import copy, io, json, os, random, re, tempfile, itertools, contextlib, hashlib, warnings
from harness import common as H, histories as HI

warnings.filterwarnings("ignore", category=FutureWarning)      # deprecation notices of the library

PROP = "C10"
IDS = ["M", "K", "J", "H"]
RULE = ("cases = (family, operation + parameters, operand tree of depth 1-3 with explicit defaults / empty and "
        "all-default sub-fibers / empty operands, operand kind: tensor | tensor-owned root fiber | tensor-owned "
        "sub-fiber | free fiber, optional U formats / declared shapes / tuple coordinates from a previous flatten, "
        "seed of the follow-up history). value family: every split (uniform / non-uniform / equal / unequal / `/` / "
        "`//`, halos, relative coordinates, every split depth), swizzle (every permutation), swap, flatten / merge "
        "(styles, levels), unflatten, Tensor.updateCoords / updatePayloads, Tensor.fromFiber of an owned root, "
        "fiber + and * (fiber and scalar forms), Fiber.copy (owner kept / dropped), deepcopy of Tensor / Fiber / "
        "Payload / Rank / RankAttrs, each at tensor and fiber level, followed by 4-20 random mutations on each side "
        "(C01 history alphabet + leaf assignment, position assignment, clear, append, rank-attribute / active-range "
        "/ name / format writes). read family: point reads, position reads and slices, every non-reference iterator "
        "(C and U formats), the co-iterators & | ^ - and the dense / n-ary ones, == and !=, isEmpty / countValues / "
        "len / nonEmpty, shape / depth / rank-id / default / active queries, str / repr / format / print, YAML dump "
        "and fiber2dict, uncompress, footprint queries of model.Format, image rendering (tree / uncompressed / both; "
        "rendered twice; with highlights - full points, sub-tensor points shorter than the depth, several workers, "
        "wildcards, the list / single-point argument forms - rendered plain, highlighted, highlighted again, highlighted "
        "with a fresh equal argument and plain again, all in one process). small scope (seed-independent): every operation x a fixed family of small operands; random: "
        "larger trees. widened classes (small scope + sprinkled over the random stream): U format on unowned fibers / with "
        "estimated extents only / mixed C-U / restricted active ranges; fibers built with another default or shape than "
        "their rank; different declared shapes on two operands; float / bool / str leaves and float / str defaults; the "
        "operation applied twice to the same operands (both results checked against the operand and against each other); "
        "reads repeated after in-place growth with the helper object reused; lazy results iterated twice and built again; "
        "lazy fibers as operands of further co-iteration (hoisted and right-nested); operands built before / inside a Metrics "
        "bracket; tuple coordinates of an earlier flatten as input of splits, merges, copies and readers; scalar arguments "
        "plain / Payload / Payload(Payload) / CoordPayload; a fiber as split list; zero / negative steps, empty split lists, "
        "fibers built with ordered=False / unique=False (stored order rotated); after a read the operand and an untouched twin "
        "receive the same in-place growth and must answer all shape-dependent queries alike; no instance attribute added; "
        "operands that are themselves results of earlier transforms (splits, split chains, flatten+unflatten, swap, "
        "elementwise results, copies), in particular of EMPTY fibers; follow-ups that create a new top-level element and "
        "fill it; half-owned operands (unowned top fiber above fibers a live tensor owns: slices of a root, a free fiber "
        "holding a root, nonEmpty, fiber-level splits / flatten of an owned fiber) for every fiber-level value operation; "
        "order-sensitive merge callbacks with 3-way collisions, coordinates 9 / 10 / 100, depth 4; every payload a reader "
        "delivers is a stored payload or a fresh object outside the operand's graph, pairwise distinct. non-trivial = value case with a non-empty operand and follow-ups on both sides, or a read case "
        "on an operand with > 12 objects")

HIST_ALPHABET = ["ref", "posref", "append", "extend", "setitem", "iadd", "imul", "iaddf", "imulf", "assignf",
                 "populate", "denseref", "updcoords", "updpayloads", "clear"]

# ---------------------------------------------------------------------------------------
# the abstraction function: object graph with identities
# ---------------------------------------------------------------------------------------
SKIP_FIELDS = {"_saved_pos", "_saved_count", "_saved_dist"}
_lib = None


def lib():
    global _lib
    if _lib is None:
        ft = H.ft()
        import importlib
        ra = importlib.import_module("fibertree.core.rank_attrs")
        _lib = (ft.Fiber, ft.Payload, ft.Rank, ra.RankAttrs, ft.Tensor, ft.CoordPayload)
    return _lib


class Walker:
    """assigns persistent small addresses to objects (and keeps them alive so that ids are never reused)"""

    def __init__(self):
        self.addr = {}
        self.keep = []

    def a(self, o):
        k = id(o)
        if k not in self.addr:
            self.addr[k] = len(self.addr)
            self.keep.append(o)
        return self.addr[k]

    def enc(self, v, ptrs):
        if v is None or isinstance(v, (bool, int, str)):
            return v
        if isinstance(v, float):
            return "f:" + repr(v)
        if isinstance(v, type):
            return "class:" + v.__name__
        if isinstance(v, tuple):
            return {"t": [self.enc(x, ptrs) for x in v]}
        if isinstance(v, frozenset):
            return {"fs": [self.enc(x, ptrs) for x in sorted(v, key=repr)]}
        if isinstance(v, (list, dict)) or isinstance(v, lib()):
            ptrs.append(self.a(v))
            return "@"
        if callable(v):
            return "fn:" + getattr(v, "__name__", type(v).__name__)
        ptrs.append(self.a(v))          # unknown object: opaque cell
        return "@"

    def record(self, o):
        ptrs = []
        if isinstance(o, list):
            data = "list|" + json.dumps([self.enc(e, ptrs) for e in o])
        elif isinstance(o, dict):
            items = sorted(o.items(), key=lambda kv: repr(kv[0]))
            data = "dict|" + json.dumps([[self.enc(k, ptrs), self.enc(v, ptrs)] for k, v in items])
        elif isinstance(o, lib()):
            fields = {k: self.enc(v, ptrs) for k, v in sorted(vars(o).items()) if k not in SKIP_FIELDS}
            data = type(o).__name__ + "|" + json.dumps(fields, sort_keys=True)
        else:
            data = "obj|" + type(o).__name__
        return data, ptrs

    def walk(self, roots):
        """{addr: (data, ptrs)} in breadth-first discovery order from `roots`"""
        out = {}
        byaddr = {}
        queue = []
        for r in roots:
            a = self.a(r)
            byaddr[a] = r
            queue.append(a)
        i = 0
        seen = set(queue)
        while i < len(queue):
            a = queue[i]
            i += 1
            o = self.keep[a]
            data, ptrs = self.record(o)
            out[a] = (data, ptrs)
            for p in ptrs:
                if p not in seen:
                    seen.add(p)
                    queue.append(p)
        return out


def rows(g):
    return [[a, d, p] for a, (d, p) in g.items()]


def canon(g):
    """id-free canonical form of a rooted ordered graph: cells in discovery order, references renumbered"""
    idx = {a: i for i, a in enumerate(g)}
    return [d + "->" + ",".join(str(idx[p]) for p in p_) for d, p_ in g.values()]


def changed_fields(g0, g1):
    """which fields of which kinds of objects differ between two walks (for classification only)"""
    out = set()
    for a, (d0, p0) in g0.items():
        if a not in g1:
            out.add(d0.split("|", 1)[0] + ":unreachable")
            continue
        d1, p1 = g1[a]
        if d0 == d1 and p0 == p1:
            continue
        k0, _, j0 = d0.partition("|")
        try:
            f0, f1 = json.loads(j0), json.loads(d1.partition("|")[2])
        except Exception:
            f0 = f1 = None
        if isinstance(f0, dict) and isinstance(f1, dict):
            diff = [k for k in sorted(set(f0) | set(f1)) if f0.get(k) != f1.get(k)]
            out.update(f"{k0}.{k}" for k in diff)
            if not diff:
                out.add(k0 + ".<reference>")
        else:
            out.add(k0 + ".<content>")
    return sorted(out)


def digest(g):
    return hashlib.sha1("\n".join(canon(g)).encode()).hexdigest()


# ---------------------------------------------------------------------------------------
# operands
# ---------------------------------------------------------------------------------------

def conv_leaf(case, v):
    """leaf value kinds: int (default) | float | bool | str"""
    k = case.get("vals")
    if k == "float":
        return v + 0.5
    if k == "bool":
        return bool(v)
    if k == "str":
        return "" if v == 0 else "s%d" % v
    return v


def _build_fiber(case, tree, depth, fd, level=0):
    """Fiber objects through the public constructor; `fd` = the default the FIBERS are built with (may differ
    from the tensor's), optional own declared shape, own format, own active range"""
    F = H.ft().Fiber
    kw = {"default": fd}
    if case.get("fshape"):
        kw["shape"] = case["fshape"]
    uo = case.get("unordered")
    if uo:                       # Fiber(.., ordered=False[, unique=False]); stored order rotated / reversed
        kw["ordered"] = False
        if uo == "nonunique":
            kw["unique"] = False
        if uo != "sorted" and len(tree) > 1:
            k = 1 + (level % (len(tree) - 1))
            tree = tree[k:] + tree[:k]
    if depth == 1:
        f = F([c for c, _ in tree], [conv_leaf(case, v) for _, v in tree], **kw)
    else:
        f = F([c for c, _ in tree], [_build_fiber(case, sub, depth - 1, fd, level + 1) for _, sub in tree], **kw)
    if case.get("kind") == "free" and case.get("fmt"):
        f.getRankAttrs().setFormat(case["fmt"][level])      # an unowned fiber's own format
    act = case.get("active")
    if act and (level == 0 or case.get("active_all")):
        f.setActive((act[0], act[1]))
    return f


def build(case, key="t"):
    try:
        return _build(case, key)
    except BuildRejected:
        raise
    except Exception as e:          # counted in the evidence (outcomes: skip:build:<class>)
        raise BuildRejected(type(e).__name__)


def _build(case, key="t"):
    """returns (operand, tensor or None, walk roots)"""
    ft = H.ft()
    d = case["d"]
    dflt = conv_leaf(case, case["dflt"])
    fd = conv_leaf(case, case["fdflt"]) if "fdflt" in case else dflt
    brk = case.get("metrics") == "built_inside"
    if brk:
        ft.Metrics.beginCollect()
    try:
        f = _build_fiber(case, case[key], d, fd)
        kind = case["kind"]
        if kind == "free":
            op = f
            tensor = None
        else:
            shape = case.get("shape2") if key == "t2" and case.get("shape2") else case.get("shape")
            tensor = ft.Tensor.fromFiber(rank_ids=IDS[:d], fiber=f, default=dflt, shape=shape, name="T" + key)
            for rid, fm in zip(IDS[:d], case.get("fmt") or []):
                tensor.setFormat(rid, fm)
            if case.get("mutable"):
                tensor.setMutable(True)
            op = tensor
    finally:
        if brk:
            ft.Metrics.endCollect()
    pre = case.get("pre")
    steps = [] if not pre else ([dict(pre, k="flatten")] if isinstance(pre, dict) else pre)
    for st in steps:             # the operand is the RESULT of earlier transforms (outside any bracket)
        x = tensor if tensor is not None else f
        k = st["k"]
        if k == "flatten":       # tuple coordinates
            y = (x.flattenRanks(depth=st.get("depth", 0), levels=st.get("levels", 1), coord_style=st.get("style", "tuple"))
                 if tensor is not None else
                 x.flattenRanks(depth=st.get("depth", 0), levels=st.get("levels", 1), style=st.get("style", "tuple")))
        elif k == "splitUniform":
            y = x.splitUniform(st.get("step", 2), depth=st.get("depth", 0))
        elif k == "splitEqual":
            y = x.splitEqual(st.get("step", 2), depth=st.get("depth", 0))
        elif k == "splitNonUniform":
            y = x.splitNonUniform(list(st.get("splits", [0, 2])), depth=st.get("depth", 0))
        elif k == "unflatten":
            y = x.unflattenRanks(depth=0, levels=st.get("levels", 1)) if tensor is not None else x.unflattenRanks(levels=st.get("levels", 1))
        elif k == "swap":
            y = x.swapRanks(depth=0) if tensor is not None else x.swapRanks()
        elif k == "mul":
            y = x * st.get("s", 2)
        elif k == "add":
            y = x + x
        elif k == "copy":
            y = copy.deepcopy(x)
        else:
            raise ValueError(k)
        if tensor is not None:
            if not isinstance(y, ft.Tensor):
                raise BuildRejected("fiber-from-tensor")
            tensor = y
            op = tensor
        else:
            f = y
            op = f
    if kind == "root":
        op = tensor.getRoot()
    elif kind == "sub":
        root = tensor.getRoot()
        subs = [p for p in root.payloads if isinstance(p, ft.Fiber)]
        op = subs[case.get("subidx", 0) % len(subs)] if subs else root
    elif kind == "half":
        # operands of MIXED ownership: an unowned top fiber above fibers a live tensor owns
        root = tensor.getRoot()
        how = case.get("half", "slice")
        if how == "slice":                  # Fiber.__getitem__ with a slice: new unowned fiber, the tensor's own payloads
            op = root[case.get("lo", 0):]
        elif how == "wrap":                 # a free fiber holding the tensor's root as its payload
            op = ft.Fiber([4], [root])
        elif how == "nonempty":             # Fiber.nonEmpty: unowned copy of the top level only
            op = root.nonEmpty()
        elif how == "fsplit":               # Fiber-level split of an owned fiber: fresh top levels, owned levels below
            op = root.splitUniform(2)
        elif how == "fflatten":
            op = root.flattenRanks() if d >= 3 else root.splitEqual(2)
        else:
            raise ValueError(how)
    roots = [op] + ([tensor] if tensor is not None and op is not tensor else [])
    return op, tensor, roots


@contextlib.contextmanager
def bracket(case):
    """operands built BEFORE a Metrics bracket and used inside it"""
    M = H.ft().Metrics
    on = case.get("metrics") == "inside"
    if on:
        M.beginCollect()
    try:
        yield
    finally:
        if on or M.isCollecting():
            try:
                M.endCollect()
            except Exception:
                M.collecting = False


def root_fiber(x):
    ft = H.ft()
    if isinstance(x, ft.Tensor):
        r = x._root
        return r if isinstance(r, ft.Fiber) else None
    return x if isinstance(x, ft.Fiber) else None


# ---------------------------------------------------------------------------------------
# value-returning operations
# ---------------------------------------------------------------------------------------

def _split_kwargs(a):
    kw = {}
    for k_src, k_dst in (("rel", "relativeCoords"), ("depth", "depth"), ("pre_halo", "pre_halo"), ("post_halo", "post_halo")):
        if k_src in a:
            kw[k_dst] = a[k_src]
    return kw


def apply_value(op, x, a, others):
    """x = operand (Tensor for T.*, Fiber for F.*, ...); returns the result object"""
    ft = H.ft()
    name = op.split(".", 1)[1]
    if name == "splitUniform":
        return x.splitUniform(a["step"], **_split_kwargs(a))
    if name == "splitNonUniform":
        if a.get("splits_fiber"):       # a fiber where a list is the usual form: `others[-1]` is that fiber
            return x.splitNonUniform(others[-1], **_split_kwargs(a))
        return x.splitNonUniform(list(a["splits"]), **_split_kwargs(a))
    if name == "splitEqual":
        return x.splitEqual(a["step"], **_split_kwargs(a))
    if name == "splitUnEqual":
        return x.splitUnEqual(list(a["sizes"]), **_split_kwargs(a))
    if name == "truediv":
        return x / a["n"]
    if name == "floordiv":
        return x // a["n"]
    if name == "swizzleRanks":
        return x.swizzleRanks([IDS[i] for i in a["perm"]])
    if name == "swapRanks":
        return x.swapRanks(depth=a["depth"]) if op.startswith("T.") else x.swapRanks()
    if name == "flattenRanks":
        if op.startswith("T."):
            return x.flattenRanks(depth=a["depth"], levels=a["levels"], coord_style=a["style"])
        return x.flattenRanks(depth=a["depth"], levels=a["levels"], style=a["style"])
    if name == "mergeRanks":
        mf = {None: None, "first": (lambda ps: ps[0]), "last": (lambda ps: ps[-1]),
              "sub": (lambda ps: ps[0] - sum(ps[1:]))}[a.get("merge_fn")]      # order-sensitive callbacks
        if op.startswith("T."):
            return x.mergeRanks(depth=a["depth"], levels=a["levels"], coord_style=a["style"], merge_fn=mf)
        return x.mergeRanks(depth=a["depth"], levels=a["levels"], style=a["style"], merge_fn=mf)
    if name == "unflattenRanks":
        if op.startswith("T."):
            return x.unflattenRanks(depth=a["depth"], levels=a["levels"])
        return x.unflattenRanks(levels=a["levels"])
    if name == "updateCoords":
        m, b = a["mul"], a["add"]
        return x.updateCoords(lambda i, c, p: m * c + b, depth=a["depth"])
    if name == "updatePayloads":
        b = a["add"]
        if a.get("box"):
            return x.updatePayloads(lambda i, c, p: ft.Payload(p.value + b), depth=a["depth"])
        return x.updatePayloads(lambda i, c, p: p.value + b, depth=a["depth"])
    if name == "fromFiber":          # Tensor.setRoot copies a root that already has an owner
        # (the rank ids of a flattened tensor are list objects: pass an own copy, not the operand's)
        return ft.Tensor.fromFiber(rank_ids=copy.deepcopy(x.getRankIds()), fiber=x.getRoot(), default=a.get("dflt", 0))
    if name == "deepcopy":
        return copy.deepcopy(x)
    if name == "copy":
        return x.copy(preserve_owner=a["preserve"])
    if name == "add":
        return x + others[0]
    if name == "mul":
        return x * others[0]
    sc = others[-1] if a.get("sform") else a.get("s")
    if name == "add_scalar":
        return x + sc
    if name == "radd_scalar":
        return sc + x
    if name == "mul_scalar":
        return x * sc
    if name == "rmul_scalar":
        return sc * x
    raise ValueError(op)


def pick_target(op, operand, tensor):
    """the object the operation is invoked on"""
    ft = H.ft()
    if op == "P.deepcopy":
        f = root_fiber(operand)
        while f is not None and f.payloads and isinstance(f.payloads[0], ft.Fiber):
            f = f.payloads[0]
        return f.payloads[0] if f is not None and f.payloads else ft.Payload(3)
    if op == "R.deepcopy":
        return tensor.ranks[0] if tensor is not None else None
    if op == "RA.deepcopy":
        return root_fiber(operand).getRankAttrs()
    return operand


# ---------------------------------------------------------------------------------------
# follow-up mutations
# ---------------------------------------------------------------------------------------

def _all_fibers(root):
    ft = H.ft()
    out, stack, seen = [], [root], set()
    while stack:
        f = stack.pop()
        if id(f) in seen or not isinstance(f, ft.Fiber):
            continue
        seen.add(id(f))
        out.append(f)
        for p in f.payloads:
            if isinstance(p, ft.Fiber):
                stack.append(p)
    return out


def _uniform_depth(root, hint=None):
    """(number of levels, snapshot) if the tree is uniform with int coordinates and boxed int leaves, else
    (None, snapshot); an empty fiber leaves the depth open, then only `hint` is trusted"""
    snap = H.snapshot(root)
    d, t, open_ = 0, snap, False
    while isinstance(t, list):
        d += 1
        if not t:
            open_ = True
            break
        e = t[0]
        t = e[1] if isinstance(e, list) and len(e) == 2 else None
    cand = hint if hint is not None else (None if open_ else d)
    if cand is not None and cand >= 1 and HI._wellformed_json(snap, cand):
        return cand, snap
    return None, snap


def own_mutation(rng, side_obj, dflt):
    """a mutation that works on any tree (tuple coordinates, mixed shapes); returns (kind, thunk)"""
    ft = H.ft()
    root = root_fiber(side_obj)
    fibers = _all_fibers(root) if root is not None else []
    leaves = [(f, i) for f in fibers for i, p in enumerate(f.payloads) if isinstance(p, ft.Payload)]
    kinds = ["leafset", "leafadd", "setitem", "clear", "append", "attr", "active", "refnew", "refnew"]
    if isinstance(side_obj, ft.Tensor):
        kinds += ["tattr", "tattr"]
    k = rng.choice(kinds)
    v = rng.choice([1, 2, -3, 7, 0, 5])
    if k in ("leafset", "leafadd", "setitem") and not leaves:
        k = "append"
    if k == "refnew":
        # create an element at a new coordinate (whatever default the fiber instantiates) and fill it
        f = rng.choice(fibers[:3]) if fibers else None
        c_new = rng.choice([21, 40, -2])

        def th():
            if f is None:
                return
            mc = f.maxCoord()
            c = c_new if not isinstance(mc, tuple) else ft.Fiber._nextCoord(mc)
            sub = f.getPayloadRef(c)
            if isinstance(sub, ft.Fiber):
                sub.append(22, v if v else 3)
            else:
                sub <<= (v if v else 3)
        return k, th
    if k == "leafset":
        f, i = rng.choice(leaves)

        def th():
            p = f.payloads[i]
            p <<= v
        return k, th
    if k == "leafadd":
        f, i = rng.choice(leaves)

        def th():
            p = f.payloads[i]
            p += v
        return k, th
    if k == "setitem":
        f, i = rng.choice(leaves)
        return k, (lambda: f.__setitem__(i, v))
    if k == "clear":
        f = rng.choice(fibers) if fibers else None
        return k, (lambda: f.clear() if f is not None else None)
    if k == "append":
        cands = [f for f in fibers if f.payloads and isinstance(f.payloads[0], ft.Payload)]
        if not cands:
            return "noop", (lambda: None)
        f = rng.choice(cands)

        def th():
            mc = f.maxCoord()
            c = 0 if mc is None else ft.Fiber._nextCoord(mc)
            f.append(c, v)
        return k, th
    if k == "attr":
        f = rng.choice(fibers) if fibers else None
        which = rng.choice(["shape", "fmt", "id", "default"])

        def th():
            if f is None:
                return
            at = f.getRankAttrs()
            if which == "shape":
                at.setShape(rng.choice([3, 9, 17]))
            elif which == "fmt":
                at.setFormat("U" if at.getFormat() == "C" else "C")
            elif which == "id":
                at.setId("Z%d" % rng.randrange(9))
            elif not f.payloads or isinstance(f.payloads[0], ft.Payload):
                at.setDefault(rng.choice([0, 7, 4]))
        return k + ":" + which, th
    if k == "active":
        f = rng.choice(fibers) if fibers else None
        lo = rng.randrange(0, 3)
        return k, (lambda: f.setActive((lo, lo + rng.randrange(1, 6))) if f is not None else None)
    if k == "tattr":
        which = rng.choice(["name", "mutable", "color", "format", "default", "rankid"])

        def th():
            t = side_obj
            if which == "name":
                t.setName("N%d" % rng.randrange(99))
            elif which == "mutable":
                t.setMutable(not t.isMutable())
            elif which == "color":
                t.setColor(rng.choice(["blue", "green"]))
            elif which == "format" and t.ranks:
                r = rng.choice(t.ranks)
                r.setFormat("U" if r.getFormat() == "C" else "C")
            elif which == "default" and t.ranks:
                t.setDefault(rng.choice([0, 7, 4]))
            elif which == "rankid" and t.ranks:
                rng.choice(t.ranks).setId("Q%d" % rng.randrange(9))
        return k + ":" + which, th
    return "noop", (lambda: None)


def _api_view(obj):
    """what the public API shows of a side (independent of the object-graph walker)"""
    ft = H.ft()
    root = root_fiber(obj)
    out = [H.snapshot(root) if root is not None else None]
    try:
        out.append(repr(obj))
        if isinstance(obj, ft.Tensor):
            out += [obj.getRankIds(), obj.getShape(), obj.getName(), obj.isMutable(), repr(obj.getDefault()),
                    [r.getFormat() for r in obj.ranks]]
        elif root is not None:
            out += [root.getShape(), root.getActive(), repr(root.getDefault())]
    except Exception as e:
        out.append(H.err_class(e))
    return json.dumps(out, default=str)


def follow_ups(rng, W, sides, roots_all, current, n_steps, dflt, n, hints=(None, None), plain=(False, False)):
    """apply n_steps random mutations, each to ONE side; returns the step records and side conditions"""
    steps = []
    invisible = True
    dirty = [False, False]      # attribute-level writes leave the domain of the C01 step model
    for _ in range(n_steps):
        s = rng.randrange(2)
        obj, roots = sides[s]
        other_roots = sides[1 - s][1]
        other_before = digest(W.walk(other_roots))
        api_before = _api_view(sides[1 - s][0])
        root = root_fiber(obj)
        mut = None
        k = None
        if root is not None and rng.random() < 0.55:
            depth, snap = _uniform_depth(root, hints[s])
            if depth is not None:
                try:
                    opj = HI.gen_op(rng, root, depth, dflt, n, HIST_ALPHABET, False)
                except Exception:
                    opj = None
                if opj is not None:
                    outcome = HI.apply_op(root, depth, dflt, opj)
                    mut = {"d": depth, "dflt": dflt, "op": opj, "before": snap, "after": H.snapshot(root),
                           "outcome": outcome, "strict": plain[s] and not dirty[s]}
                    k = "hist:" + opj["k"]
        if k is None:
            k, th = own_mutation(rng, obj, dflt)
            if k.startswith(("attr", "tattr", "active")):
                dirty[s] = True
            try:
                th()
            except Exception as e:      # a rejected / failing mutation is still a history step
                k += ":" + H.err_class(e)
        new = W.walk(roots_all)
        writes = [[a, rec[0], rec[1]] for a, rec in new.items() if current.get(a) != rec]
        current.update(new)
        if digest(W.walk(other_roots)) != other_before or _api_view(sides[1 - s][0]) != api_before:
            invisible = False
        steps.append({"side": s, "k": k, "writes": writes, "mut": mut})
    return steps, invisible


# ---------------------------------------------------------------------------------------
# running a value case
# ---------------------------------------------------------------------------------------

def run_value(case):
    ft = H.ft()
    rng = random.Random(case["hseed"])
    W = Walker()
    op = case["op"]
    operand, tensor, a_roots = build(case)
    others = []
    if "t2" in case:
        o2, t2, r2 = build(case, "t2")
        others.append(o2)
        a_roots = a_roots + r2
    args = case.get("args", {})
    if args.get("sform"):           # scalar argument plain / boxed / double boxed / as an element: an operand as well
        v = conv_leaf(case, args["s"])
        sc = {"payload": lambda: ft.Payload(v), "ppayload": lambda: ft.Payload(ft.Payload(v)),
              "cp": lambda: ft.CoordPayload(0, ft.Payload(v))}[args["sform"]]()
        others.append(sc)
        a_roots = a_roots + [sc]
    if args.get("splits_fiber"):
        sf = ft.Fiber(list(args["splits"]), [1] * len(args["splits"]))
        others.append(sf)
        a_roots = a_roots + [sf]
    target = pick_target(op, operand, tensor)
    impl = {}
    side = {}
    if target is None:
        impl["outcome"] = "skip:no-target"
        case["impl"] = impl
        case["side"] = side
        return case
    if target is not operand:
        a_roots = [target] + a_roots
    g0 = W.walk(a_roots)
    impl["canonA0"] = canon(g0)
    res2 = None
    with bracket(case):
        try:
            res = apply_value(op, target, args, others)
            impl["outcome"] = "ok"
        except Exception as e:
            res = None
            impl["outcome"] = H.err_class(e)
        if case.get("twice"):           # the same operation applied a second time to the same operands
            try:
                res2 = apply_value(op, target, args, others)
                out2 = "ok"
            except Exception as e:
                out2 = H.err_class(e)
            side["repeated_call_same_outcome"] = (out2 == impl["outcome"])
    g1 = W.walk(a_roots)
    impl["canonA1"] = canon(g1)
    impl["objectwise_identical"] = (g0 == g1)               # stronger, id-level; informative only
    if impl["canonA0"] != impl["canonA1"]:
        impl["changed"] = changed_fields(g0, g1)
    if res is None:
        case["impl"] = impl
        case["side"] = side
        return case
    b_roots = [res]
    if res2 is not None:
        gr1, gr2 = W.walk([res]), W.walk([res2])
        side["repeated_call_result_structurally_equal"] = canon(gr1) == canon(gr2)
        side["repeated_call_results_disjoint"] = not any(a in gr2 for a in gr1)
        b_roots = [res, res2]
    roots_all = a_roots + b_roots
    gab = W.walk(roots_all)
    impl["heap"] = rows(gab)
    impl["ra"] = [W.a(r) for r in a_roots]
    impl["rb"] = [W.a(r) for r in b_roots]
    ga = W.walk(a_roots)
    gb = W.walk(b_roots)
    shared = [a for a in ga if a in gb]
    impl["nshared"] = len(shared)
    if shared:
        # classify where the aliasing sits: only below the operand's payload elements, or wider
        top = root_fiber(target)
        region = "other"
        if top is not None and W.a(top) not in shared:
            below = W.walk(list(top.payloads)) if top.payloads else {}
            if all(a in below for a in shared):
                region = "payloads"
        impl["alias_region"] = region
        impl["steps"] = []
        impl["final"] = impl["heap"]
        case["impl"] = impl
        case["side"] = side
        return case
    n_steps = case.get("nfollow", 6)
    a_obj = tensor if tensor is not None else operand
    sides = [(a_obj, a_roots), (res, b_roots)]
    current = dict(gab)
    hint_a = None if case.get("pre") else case["d"]
    # the C01 step model is claimed for trees as C01 builds them: the operand side when it is a plain C-format
    # tree, and the result side when the result is a plain copy of such a tree
    plain_a = (not case.get("fmt") and not case.get("pre") and (case["kind"] != "free" or case["d"] == 1) and
               not any(case.get(k) for k in ("vals", "fshape", "active", "metrics", "unordered")) and "fdflt" not in case)
    # (not for half-owned operands: their copy is an unowned wrapper / slice above owned fibers, a shape of tree the
    #  C01 histories never build and the step model does not claim)
    plain_b = plain_a and op in ("T.deepcopy", "F.deepcopy", "F.copy") and case["kind"] != "half"
    steps, invisible = follow_ups(rng, W, sides, roots_all, current, n_steps, case["dflt"], case.get("n", 4),
                                  (hint_a, None), (plain_a, plain_b))
    impl["steps"] = steps
    impl["final"] = rows(W.walk(roots_all))
    side["followups_invisible_to_other_side"] = invisible
    case["impl"] = impl
    case["side"] = side
    return case


# ---------------------------------------------------------------------------------------
# read-only operations
# ---------------------------------------------------------------------------------------

def _consume(x, depth=2):
    """force lazy fibers / generators"""
    ft = H.ft()
    if depth == 0:
        return
    if isinstance(x, ft.Fiber):
        if x.isLazy():
            for c, p in x:
                _consume(p, depth - 1)
        return
    if isinstance(x, (list, tuple)):
        for e in x:
            _consume(e, depth - 1)
        return
    if hasattr(x, "__next__"):
        for e in x:
            _consume(e, depth - 1)


def _points(rng, d, n):
    return [[rng.randrange(-1, n + 1) for _ in range(rng.randrange(1, d + 1))] for _ in range(4)]


def _deliver(case, p):
    """remember every payload object a reader hands out (tuples are taken apart)"""
    ft = H.ft()
    if isinstance(p, tuple):
        for e in p:
            _deliver(case, e)
    elif isinstance(p, ft.CoordPayload):
        _deliver(case, p.payload)
    elif isinstance(p, ft.Payload) and isinstance(p.value, tuple):
        _deliver(case, p.value)
    elif isinstance(p, (ft.Payload, ft.Fiber)):
        case.setdefault("_delivered", []).append(p)


def _twice(case, mk, depth=2):
    """iterate a lazy result twice (and a freshly built equal one once): same elements each time"""
    ft = H.ft()

    def flat(z, d):
        out = []
        for c, p in z:
            _deliver(case, p)
            parts = p if isinstance(p, tuple) else (p,)
            row = [repr(c)]
            for e in parts:
                if isinstance(e, ft.Fiber) and e.isLazy() and d > 1:
                    row.append(flat(e, d - 1))
                elif isinstance(e, ft.Fiber):
                    row.append("F" + json.dumps(H.snapshot(e), default=str))
                else:
                    row.append(repr(e))
            out.append(row)
        return out
    z = mk()
    first = flat(z, depth)
    second = flat(z, depth)
    third = flat(mk(), depth)
    ok = first == second == third
    case["_lazy_same"] = case.get("_lazy_same", True) and ok


def apply_read(op, x, a, others, tensor, case):
    """x: Fiber (F.*) or Tensor (T.*).  Returns nothing interesting; must not disturb anything."""
    ft = H.ft()
    name = op.split(".", 1)[1]
    g = others[0] if others else None
    if name == "getPayload":
        for p in a["points"]:
            _deliver(case, x.getPayload(*p))
            _deliver(case, x.getPayload(*p))        # the same absent point again: a second, distinct object
        return
    if name == "getPayload_tuple":          # tuple coordinates from an earlier flatten
        r = x.getRoot() if isinstance(x, ft.Tensor) else x
        for c in list(r.coords)[:3] + [(97, 98)]:
            _deliver(case, x.getPayload(c))
        return
    if name == "getPayload_noalloc":
        for p in a["points"]:
            x.getPayload(*p, allocate=False, default=a.get("default", 0))
        return
    if name == "getitem":
        for i in range(-1, len(x.getRoot() if isinstance(x, ft.Tensor) else x)):
            x[i]
        return
    if name == "getitem_slice":
        x[0:2]
        x[::2]
        x[1:]
        return
    if name == "getitem_tuple":
        if len(x) and isinstance(x.payloads[0], ft.Fiber) and len(x.payloads[0]):
            x[0, 0]
            x[0:1, 0:1]
        return
    if name == "accessors":
        x.getCoords(), x.getPayloads(), x.minCoord(), x.maxCoord(), x.isOrdered(), x.isUnique(), x.isLazy()
        x.getOwner(), x.getRankAttrs(), x.getSavedPos()
        return
    if name == "getRange":
        _consume(x.getRange(a["s"], size=a["size"]))
        _consume(x.getRange(a["s"], end_coord=a["s"] + a["size"]))
        return
    if name == "getPosition":
        for c in range(-1, a["n"] + 1):
            x.getPosition(c)
        return
    if name == "project":
        _twice(case, lambda: x.project(trans_fn=lambda c: c + 1))
        _twice(case, lambda: x.project(trans_fn=lambda c: 7 - c))       # order-reversing
        _twice(case, lambda: x.project(trans_fn=lambda c: c + 1, interval=(1, 3)))
        return
    if name == "prune":
        _twice(case, lambda: x.prune(trans_fn=lambda i, c, p: i % 2 == 0))
        return
    if name == "iter":
        for c, p in x:
            _deliver(case, p)
        [(c, p) for c, p in x]
        return
    if name == "iter_nested":
        def rec(f):
            for c, p in f:
                if isinstance(p, ft.Fiber):
                    rec(p)
        rec(x.getRoot() if isinstance(x, ft.Tensor) else x)
        return
    if name == "reversed":
        list(reversed(x))
        return
    if name in ("iterOccupancy", "iterShape", "iterActive", "iterActiveShape"):
        for c, p in getattr(x, name)():
            _deliver(case, p)
        list(getattr(x, name)())
        return
    if name == "iterRange":
        list(x.iterRange(a["s"], a["e"]))
        return
    if name == "iterRangeShape":
        for c, p in x.iterRangeShape(a["s"], a["e"], a.get("step", 1)):
            _deliver(case, p)
        return
    if name == "iterUncompressed":
        for c, p in x.iterUncompressed():
            _deliver(case, p)
        return
    if name in ("and", "or", "xor", "sub"):
        _twice(case, lambda: {"and": x.__and__, "or": x.__or__, "xor": x.__xor__, "sub": x.__sub__}[name](g))
        return
    if name.startswith("lazy_"):
        # lazy fibers as operands of further co-iteration, hoisted and right-nested
        Fb = ft.Fiber
        mk = {
            "lazy_hoisted": lambda: (x & g) & x,
            "lazy_right": lambda: x & (g & x),
            "lazy_or_and": lambda: (x | g) & x,
            "lazy_and_or": lambda: x | (g & x),
            "lazy_sub_and": lambda: (x - g) & g,
            "lazy_project_and": lambda: x.project(trans_fn=lambda c: c + 1) & g,
            "lazy_prune_or": lambda: x.prune(trans_fn=lambda i, c, p: i % 2 == 0) | g,
            "lazy_intersection_and": lambda: Fb.intersection(x, g) & x,
            "lazy_union_sub": lambda: Fb.union(x, g) - g,
            "lazy_xor_or": lambda: (x ^ g) | x,
        }[name]
        _twice(case, mk, depth=3)
        if name == "lazy_hoisted":
            len(x & g)
        return
    if name == "and_nested":
        def rec(f1, f2):
            for c, (p1, p2) in f1 & f2:
                if isinstance(p1, ft.Fiber):
                    rec(p1, p2)
        rec(x, g)
        return
    if name == "or_nested":
        def rec(f1, f2):
            for c, (m, p1, p2) in f1 | f2:
                if isinstance(p1, ft.Fiber) and isinstance(p2, ft.Fiber):
                    rec(p1, p2)
        rec(x, g)
        return
    if name in ("coiterShape", "coiterActiveShape"):
        _twice(case, lambda: getattr(ft.Fiber, name)([x, g]))
        return
    if name == "coiterRangeShape":
        _twice(case, lambda: ft.Fiber.coiterRangeShape([x, g], a["s"], a["e"], a.get("step", 1)))
        return
    if name == "intersection":
        _twice(case, lambda: ft.Fiber.intersection(x, g))
        _twice(case, lambda: ft.Fiber.intersection(x, g, x))
        return
    if name == "union":
        _twice(case, lambda: ft.Fiber.union(x, g))
        _twice(case, lambda: ft.Fiber.union(x, g, x))
        return
    if name == "eq":
        x == g
        x != g
        x == x
        return
    if name == "eq_copy":
        x == copy.deepcopy(x)
        return
    if name == "counting":
        x.isEmpty() if not isinstance(x, ft.Tensor) else x.getRoot().isEmpty()
        x.countValues()
        if not isinstance(x, ft.Tensor):
            x.countValues(recursive=False)
            len(x)
            x.nonEmpty()
        return
    if name == "shape":
        x.getShape()
        if isinstance(x, ft.Tensor):
            x.getShape(authoritative=True)
            x.getShape(IDS[0])
            x.getShape([IDS[0]])
            x.getRankIds(), x.getDepth(), x.getDefault(), x.getFormat(IDS[0]), x.isMutable(), x.getName(), x.getColor()
            x.getRoot()
        else:
            x.getShape(all_ranks=False)
            if x.getOwner() is not None:
                x.getShape(authoritative=True)
                x.getShape(all_ranks=False, authoritative=True)
            x.estimateShape()
            x.estimateShape(all_ranks=False)
            x.getDepth(), x.getRankIds(), x.getRankIds(all_ranks=False), x.getActive(), x.getDefault()
        return
    if name == "str":
        str(x), repr(x), format(x, "n*"), format(x, "")
        if not isinstance(x, ft.Tensor):
            format(x, "(02d,03d)n")
        return
    if name == "print":
        with contextlib.redirect_stdout(io.StringIO()):
            x.print("title")
            x.print()
        return
    if name == "dump":
        fd, path = tempfile.mkstemp(suffix=".yaml")
        os.close(fd)
        try:
            x.dump(path)
        finally:
            os.unlink(path)
        if not isinstance(x, ft.Tensor):
            x.fiber2dict()
        return
    if name == "uncompress":
        (x.getRoot() if isinstance(x, ft.Tensor) else x).uncompress()
        return
    if name == "footprint":
        import importlib
        F = importlib.import_module("fibertree.model.format").Format
        spec = {rid: {"format": fm, "cbits": 8, "pbits": 16, "fhbits": 4, "rhbits": 2, "layout": "contiguous"}
                for rid, fm in zip(x.getRankIds(), a["fmts"])}
        spec["root"] = {"hbits": 3, "pbits": 5}
        cache = case.setdefault("_cache", {})
        fmt = cache.get("fmt") or F(x, spec)        # the helper object is reused when the read is repeated
        cache["fmt"] = fmt
        fmt.getRoot(), fmt.getTensor()
        for rid in x.getRankIds():
            fmt.getRank(rid), fmt.getCBits(rid), fmt.getPBits(rid), fmt.getFHBits(rid), fmt.getRHBits(rid)
            fmt.getFormat(rid), fmt.getLayout(rid), fmt.getElem(rid, "elem")
        for p in [[]] + a["points"]:
            try:
                fmt.getFiber(*p[:max(0, len(x.getRankIds()) - 1)])
                fmt.getSubTree(*p)
            except AssertionError:
                pass
        return
    if name.startswith("renderhl"):
        # plain, highlighted, highlighted again (same arguments), plain again: the renderer keeps no state
        import importlib
        TI = importlib.import_module("fibertree.graphics.tensor_image").TensorImage
        style = name.split(":")[1]

        def mk():
            h = {w: [tuple(p) for p in pts] for w, pts in a["hl"].items()}
            form = a.get("form", "dict")
            if form == "list":          # list of points, no worker
                return [p for pts in h.values() for p in pts]
            if form == "single":        # one point per worker
                return {w: pts[0] for w, pts in h.items()}
            return h

        def shot(**kw):
            try:
                im = TI(x, style=style, **kw).im
                return [list(im.size), hashlib.sha1(im.tobytes()).hexdigest()]
            except Exception as e:
                return [H.err_class(e)]
        hl = mk()
        plain1 = shot()
        first = shot(highlights=hl)
        second = shot(highlights=hl)
        fresh = shot(highlights=mk())
        plain2 = shot()
        case["_render_same"] = (first == second == fresh)
        case["_render_size"] = first[0]
        case["_render_extra"] = {
            "plain_render_unaffected_by_highlighted_render": plain1 == plain2,
            "highlights_argument_unchanged": hl == mk(),
            "render_raises_nothing": all(len(r) == 2 for r in (plain1, first, second, fresh, plain2)),
        }
        case["_render_drawn"] = (first != plain1)
        return
    if name.startswith("render"):
        import importlib
        TI = importlib.import_module("fibertree.graphics.tensor_image").TensorImage
        style = name.split(":")[1]
        im1 = TI(x, style=style).im
        im2 = TI(x, style=style).im
        case["_render_same"] = (im1.size == im2.size and im1.tobytes() == im2.tobytes())
        case["_render_size"] = list(im1.size)
        return
    raise ValueError(op)


def _attr_names(roots, W):
    """attribute names (incl. the statistics fields the graph leaves out) of every library object reachable"""
    out = []
    for a in W.walk(roots):
        o = W.keep[a]
        if isinstance(o, lib()):
            out.append((a, tuple(sorted(vars(o)))))
    return out


def _fresh_distinct(case, fresh):
    """objects built for absent points: no object handed out for two different deliveries.  A lazy result that is
    iterated twice legitimately re-delivers nothing fresh either (each pass builds its own defaults)."""
    seen = set()
    for o in fresh:
        if id(o) in seen:
            return False
        seen.add(id(o))
    return True


def _shape_view(x):
    """shape-dependent public observations of a fiber / tensor (each may raise: the class is the observation)"""
    ft = H.ft()
    root = root_fiber(x)
    out = []

    def obs(th):
        try:
            out.append(json.dumps(th(), default=repr))
        except Exception as e:
            out.append(H.err_class(e))
    if root is None:
        return out
    for f in _all_fibers(root)[:6]:
        obs(lambda: f.maxCoord())
        obs(lambda: f.minCoord())
        obs(lambda: f.getShape(all_ranks=False))
        obs(lambda: f.estimateShape())
        obs(lambda: list(f.getActive()))
        obs(lambda: len(f))
    obs(lambda: root.getShape())
    obs(lambda: [[c, repr(p)] for c, p in root.iterShape()][:40])
    obs(lambda: [[c, repr(p)] for c, p in root][:40])
    obs(lambda: H.snapshot(root))
    obs(lambda: root.countValues())
    if isinstance(x, ft.Tensor):
        obs(lambda: x.getShape())
        obs(lambda: repr(x))
    else:
        obs(lambda: repr(root))
        obs(lambda: H.snapshot(root + 1) if root.payloads and isinstance(root.payloads[0], ft.Payload) else None)
    return out


def _grow(x, case):
    """in-place growth of the operand between two reads"""
    ft = H.ft()
    root = root_fiber(x)
    if root is None:
        return
    try:
        fibers = _all_fibers(root)
        leafs = [f for f in fibers if f.payloads and isinstance(f.payloads[0], ft.Payload)]
        if leafs:
            f = leafs[-1]
            f.append(f.maxCoord() + 5, conv_leaf(case, 9))       # past the old extent
        if isinstance(x, ft.Tensor) or root.getOwner() is not None:
            root.getPayloadRef(*([1] * case["d"]))                # an absent (or present) point, created with defaults
        elif leafs:
            leafs[0].getPayloadRef(leafs[0].maxCoord() + 2)
    except Exception:
        pass


def run_read(case):
    ft = H.ft()
    W = Walker()
    op = case["op"]
    operand, tensor, roots = build(case)
    others = []
    if "t2" in case:
        o2, t2, r2 = build(case, "t2")
        others.append(o2)
        roots = roots + r2
    x = operand
    if op.startswith("T.") and tensor is not None:
        x = tensor
    if op.startswith("F.") and isinstance(x, ft.Tensor):
        x = x.getRoot()
    impl = {}
    args = case.get("args", {})
    twin = None
    if case.get("twin"):
        # an untouched twin built from the same description: after the read, operand and twin receive the same
        # in-place growth and must then answer every shape-dependent question alike (state a reader may have left
        # behind anywhere - hidden attributes, caches - shows up here even if the object graph does not have it)
        tcase = {k: v for k, v in case.items() if not k.startswith("_")}
        t_op, t_tensor, _ = build(tcase)
        twin = t_tensor if (isinstance(x, ft.Tensor) and t_tensor is not None) else t_op
        if isinstance(twin, ft.Tensor) and not isinstance(x, ft.Tensor):
            twin = twin.getRoot()
    if case.get("remut"):
        # the read once, then the operand is mutated in place (grown past its old extent, element added at an
        # absent point), then the SAME read again (helper objects reused): the second one is the observed one
        try:
            apply_read(op, x, args, others, tensor, case)
        except Exception:
            pass
        case.pop("_delivered", None)
        _grow(x, case)
        if twin is not None:
            _grow(twin, case)
    attrs0 = _attr_names(roots, W)
    g0 = W.walk(roots)
    with bracket(case):
        try:
            apply_read(op, x, args, others, tensor, case)
            impl["outcome"] = "ok"
        except Exception as e:
            impl["outcome"] = H.err_class(e)
    g1 = W.walk(roots)
    attrs1 = _attr_names(roots, W)
    impl["g0"] = rows(g0)
    impl["g1"] = rows(g1)
    side = {}
    case.pop("_cache", None)
    # a reader adds no instance attribute to any object of the operand (not even one the walker does not track)
    side["no_instance_attribute_added"] = attrs0 == attrs1
    if twin is not None:
        _grow(x, case)
        _grow(twin, case)
        side["same_answers_as_untouched_twin_after_growth"] = _shape_view(x) == _shape_view(twin)
    if "_lazy_same" in case:
        side["lazy_result_iterates_identically"] = case.pop("_lazy_same")
    delivered = case.pop("_delivered", None)
    if delivered is not None:
        # every delivered payload is either a STORED payload of the operand (an element of one of its lists) or an
        # object that is not part of the operand's graph at all, and the latter are pairwise distinct
        stored = set()
        for a_, (d_, p_) in g1.items():
            if d_.startswith("list|"):
                stored.update(p_)
        ok, fresh = True, []
        for o in delivered:
            ad = W.addr.get(id(o))
            if ad is not None and ad in g1:
                if ad not in stored:
                    ok = False          # e.g. the rank's own default box handed out
            else:
                fresh.append(o)
        # the same stored object may be delivered repeatedly; fresh ones (built for an absent point) may not
        fresh_ids = [id(o) for o in fresh]
        impl["delivered"] = [len(delivered), len(fresh)]
        side["absent_payloads_fresh_and_distinct"] = ok and _fresh_distinct(case, fresh)
    if "_render_same" in case:
        side["rendered_twice_pixel_identical"] = case.pop("_render_same")
        impl["render_size"] = case.pop("_render_size")
    if "_render_extra" in case:
        side.update(case.pop("_render_extra"))
        impl["highlight_drawn"] = case.pop("_render_drawn")
    # rank lists by identity, stated separately (multiset per rank) so that a failure names them
    case["impl"] = impl
    case["side"] = side
    return case


class BuildRejected(Exception):
    pass


def run(case):
    try:
        if case["fam"] == "value":
            return run_value(case)
        return run_read(case)
    except BuildRejected as e:      # the library refuses to construct this operand (e.g. flatten of an unordered fiber)
        case["impl"] = {"outcome": "skip:build:" + str(e)}
        case["side"] = {}
        return case


# ---------------------------------------------------------------------------------------
# generators
# ---------------------------------------------------------------------------------------

def small_trees(d, tier):
    if d == 1:
        fibs = list(H.all_leaf_fibers(3, [0, 5]))
        if tier == "quick":
            fibs = [f for i, f in enumerate(fibs) if i % 3 == 0 or len(f) == 3] + [[]]
            fibs = [list(x) for x in {json.dumps(f): f for f in fibs}.values()]
        return fibs
    if d == 2:
        subs = [None, [], [[1, 0]], [[0, 1], [2, 2]], [[1, 3]]]
        out = []
        for combo in itertools.product(subs, repeat=3):
            out.append([[c, s] for c, s in enumerate(combo) if s is not None])
        if tier == "quick":
            out = [t for i, t in enumerate(out) if i % 9 == 0] + [[[0, [[0, 1], [2, 2]]], [1, []], [2, [[1, 3]]]],
                                                                  [[0, [[1, 0]]], [2, [[0, 1], [2, 2]]]]]
        return out
    a = [[0, 1], [2, 2]]
    return [[], [[0, [[1, a]]]], [[0, [[0, a], [1, []]]], [1, []], [2, [[2, [[1, 3]]]]]],
            [[0, [[0, [[1, 0]]]]], [1, [[1, a], [2, [[0, 4]]]]]]]


def kinds_for(op, d):
    if op.startswith("T."):
        return ["tensor"]
    if op in ("R.deepcopy",):
        return ["tensor"]
    ks = ["free", "root"]
    if d >= 2:
        ks.append("sub")
        ks.append("half")
    return ks


def value_ops(d, n=3):
    """(op, args, extra case fields) for an operand of d ranks"""
    out = []
    for lvl in ("T", "F"):
        depths = list(range(d)) if lvl == "T" else [0]
        for k in depths:
            out.append((f"{lvl}.splitUniform", {"step": 2, "depth": k, "pre_halo": 1}, {}))
            out.append((f"{lvl}.splitUniform", {"step": 1, "depth": k, "rel": True, "post_halo": 2}, {}))
            out.append((f"{lvl}.splitNonUniform", {"splits": [0, 2], "depth": k, "post_halo": 1}, {}))
            out.append((f"{lvl}.splitEqual", {"step": 2, "depth": k}, {}))
            out.append((f"{lvl}.splitUnEqual", {"sizes": [1, 2], "depth": k, "pre_halo": 1}, {}))
        out.append((f"{lvl}.truediv", {"n": 2}, {}))
        out.append((f"{lvl}.floordiv", {"n": 2}, {}))
        if d >= 2:
            for k in (range(d - 1) if lvl == "T" else [0]):
                out.append((f"{lvl}.swapRanks", {"depth": k}, {}))
                for style in ("tuple", "pair", "absolute", "relative", "linear"):
                    out.append((f"{lvl}.flattenRanks", {"depth": k, "levels": 1, "style": style}, {}))
                for style in ("absolute", "relative", "tuple"):
                    out.append((f"{lvl}.mergeRanks", {"depth": k, "levels": 1, "style": style}, {}))
            if d >= 3:
                out.append((f"{lvl}.flattenRanks", {"depth": 0, "levels": 2, "style": "tuple"}, {}))
                out.append((f"{lvl}.mergeRanks", {"depth": 0, "levels": 2, "style": "absolute"}, {}))
            # unflatten: the operand is a flattened tensor / fiber
            out.append((f"{lvl}.unflattenRanks", {"depth": 0, "levels": 1}, {"pre": {"depth": 0, "levels": 1, "style": "tuple"}}))
            if d >= 3:
                out.append((f"{lvl}.unflattenRanks", {"depth": 0, "levels": 2}, {"pre": {"depth": 0, "levels": 2, "style": "tuple"}}))
                out.append((f"{lvl}.unflattenRanks", {"depth": 0, "levels": 1}, {"pre": {"depth": 0, "levels": 2, "style": "tuple"}}))
                # an operand that is itself the result of a flatten (its first rank id is a list)
                for style in ("tuple", "pair"):
                    out.append((f"{lvl}.flattenRanks", {"depth": 0, "levels": 1, "style": style},
                                {"pre": {"depth": 0, "levels": 1, "style": "tuple"}}))
                out.append((f"{lvl}.swapRanks", {"depth": 0}, {"pre": {"depth": 0, "levels": 1, "style": "tuple"}}))
    for perm in itertools.permutations(range(d)):
        out.append(("T.swizzleRanks", {"perm": list(perm)}, {}))
    for k in range(d):
        out.append(("T.updateCoords", {"mul": 1, "add": 1, "depth": k}, {}))
        out.append(("T.updateCoords", {"mul": -1, "add": n, "depth": k}, {}))
    out.append(("T.updatePayloads", {"add": 1, "depth": d - 1}, {}))
    out.append(("T.updatePayloads", {"add": 0, "depth": d - 1, "box": True}, {}))
    out.append(("T.fromFiber", {}, {}))
    out.append(("T.deepcopy", {}, {}))
    out.append(("F.deepcopy", {}, {}))
    out.append(("F.copy", {"preserve": True}, {}))
    out.append(("F.copy", {"preserve": False}, {}))
    out.append(("P.deepcopy", {}, {}))
    out.append(("R.deepcopy", {}, {}))
    out.append(("RA.deepcopy", {}, {}))
    out.append(("F.add", {}, {"two": True}))
    out.append(("F.mul", {}, {"two": True}))
    if d == 1:
        for nm in ("add_scalar", "radd_scalar", "mul_scalar", "rmul_scalar"):
            out.append((f"F.{nm}", {"s": 2}, {}))
            for sform in ("payload", "ppayload", "cp"):
                out.append((f"F.{nm}", {"s": 2, "sform": sform}, {}))
    # legal but unusual arguments
    for lvl in ("T", "F"):
        out.append((f"{lvl}.splitUniform", {"step": 0}, {}))
        out.append((f"{lvl}.splitUniform", {"step": -2}, {}))
        out.append((f"{lvl}.splitEqual", {"step": 0}, {}))
        out.append((f"{lvl}.splitNonUniform", {"splits": []}, {}))
        out.append((f"{lvl}.splitUnEqual", {"sizes": []}, {}))
        out.append((f"{lvl}.splitNonUniform", {"splits": [1, 2], "splits_fiber": True, "pre_halo": 1}, {}))
        out.append((f"{lvl}.truediv", {"n": 7}, {}))
        if d >= 2:
            for mf in ("first", "last", "sub"):
                out.append((f"{lvl}.mergeRanks", {"depth": 0, "levels": 1, "style": "absolute", "merge_fn": mf}, {}))
            out.append((f"{lvl}.mergeRanks", {"depth": 0, "levels": d - 1, "style": "relative", "merge_fn": "sub"}, {}))
    return out


def read_ops(d, n=3):
    pts = [[0], [1], [n + 1], [0, 1], [2, 2], [1, 0, 1], [5, 5, 5]]
    pts = [p for p in pts if len(p) <= d]
    out = []
    for lvl in ("T", "F"):
        out.append((f"{lvl}.getPayload", {"points": pts}, {}))
        out.append((f"{lvl}.getPayload_noalloc", {"points": pts, "default": 0}, {}))
        out.append((f"{lvl}.iter", {}, {}))
        out.append((f"{lvl}.iter_nested", {}, {}))
        out.append((f"{lvl}.reversed", {}, {}))
        out.append((f"{lvl}.counting", {}, {}))
        out.append((f"{lvl}.shape", {}, {}))
        out.append((f"{lvl}.str", {}, {}))
        out.append((f"{lvl}.print", {}, {}))
        out.append((f"{lvl}.dump", {}, {}))
        out.append((f"{lvl}.uncompress", {}, {}))
        out.append((f"{lvl}.eq", {}, {"two": True}))
        out.append((f"{lvl}.eq_copy", {}, {}))
        out.append((f"{lvl}.getitem", {}, {}))
    for nm in ("getitem_slice", "getitem_tuple", "accessors", "project", "prune", "iterOccupancy", "iterShape",
               "iterActive", "iterActiveShape", "iterUncompressed"):
        out.append((f"F.{nm}", {}, {}))
    out.append(("F.getRange", {"s": 1, "size": 2}, {}))
    out.append(("F.getPosition", {"n": n}, {}))
    out.append(("F.iterRange", {"s": 1, "e": n}, {}))
    out.append(("F.iterRangeShape", {"s": 0, "e": n + 1, "step": 1}, {}))
    out.append(("F.iterRangeShape", {"s": 1, "e": n + 2, "step": 2}, {}))
    for nm in ("and", "or", "xor", "sub", "and_nested", "or_nested", "coiterShape", "coiterActiveShape",
               "intersection", "union"):
        out.append((f"F.{nm}", {}, {"two": True}))
    out.append(("F.coiterRangeShape", {"s": 0, "e": n + 1}, {"two": True}))
    out.append(("F.coiterRangeShape", {"s": 1, "e": n + 3, "step": 2}, {"two": True}))
    for nm in ("lazy_hoisted", "lazy_right", "lazy_or_and", "lazy_and_or", "lazy_sub_and", "lazy_project_and",
               "lazy_prune_or", "lazy_intersection_and", "lazy_union_sub", "lazy_xor_or"):
        out.append((f"F.{nm}", {}, {"two": True}))
    # legal but unusual arguments
    out.append(("F.iterRangeShape", {"s": n, "e": -1, "step": -1}, {}))
    out.append(("F.iterRangeShape", {"s": 0, "e": n, "step": 0}, {}))
    out.append(("F.iterRange", {"s": n, "e": 0}, {}))
    out.append(("F.getRange", {"s": 0, "size": 0}, {}))
    out.append(("T.footprint", {"fmts": ["C"] * d, "points": pts}, {}))
    out.append(("T.footprint", {"fmts": (["U", "C", "U"])[:d], "points": pts}, {}))
    return out


RENDER = ["T.render:tree", "T.render:uncompressed", "T.render:tree+uncompressed", "F.render:tree", "F.render:uncompressed"]


def _mk(fam, op, args, extra, d, dflt, t, kind, hseed, **kw):
    c = {"prop": PROP, "fam": fam, "op": op, "args": args, "d": d, "dflt": dflt, "t": t, "kind": kind,
         "hseed": hseed, "n": 3, "mstrict": True}
    c.update({k: v for k, v in extra.items() if k != "two"})
    c.update(kw)
    if kind == "half" and "half" not in c:
        c["half"] = ["slice", "wrap", "fsplit", "nonempty", "fflatten"][hseed % 5]
        c["lo"] = hseed % 2
    return c


HL_TREES = [
    (2, [[0, [[0, 1], [1, 2]]], [1, [[1, 3]]], [2, [[0, 4], [2, 5]]]]),
    (2, [[0, [[0, 1]]], [2, [[1, 0], [2, 2]]], [3, []]]),
    (3, [[0, [[0, [[0, 1], [2, 2]]], [1, [[1, 3]]]]], [1, [[2, [[0, 4]]]]], [2, [[0, [[1, 5]]], [2, [[2, 6]]]]]]),
    (1, [[0, 1], [2, 0], [3, 4]]),
]


def highlight_sets(d, t):
    """highlight specifications for a tree: full points, partial points (sub-tensors: fewer coordinates than
    ranks) on first / later / absent coordinates, several workers, wildcards, the alternative argument forms"""
    cs = [c for c, _ in t]
    later = cs[1] if len(cs) > 1 else (cs[0] if cs else 0)
    last = cs[-1] if cs else 0

    def full(c0):
        p, sub = [c0], dict((c, s) for c, s in t).get(c0)
        for _ in range(d - 1):
            if isinstance(sub, list) and sub:
                p.append(sub[-1][0])
                sub = sub[-1][1]
            else:
                p.append(0)
                sub = None
        return p
    out = [({"PE": [full(later)]}, "dict"), ({"PE": [full(cs[0] if cs else 0)], "PE1": [full(last)]}, "dict")]
    if d >= 2:
        out += [({"PE": [[later]]}, "dict"), ({"PE": [[last]]}, "dict"), ({"PE": [[cs[0] if cs else 0]]}, "dict"),
                ({"PE0": [[later]], "PE1": [full(last)]}, "dict"), ({"A": [[last]], "B": [[later]], "C": [[99]]}, "dict"),
                ({"PE": [[later], [last]]}, "list"), ({"PE": [[later]]}, "single"),
                ({"PE": [["?"] + full(later)[1:]]}, "dict")]
    if d >= 3:
        out += [({"PE": [full(later)[:2]]}, "dict"), ({"PE0": [[later]], "PE1": [full(last)[:2]]}, "dict")]
    return out


def gen_render_hl(tier):
    quick = tier == "quick"
    k = 0
    for d, t in HL_TREES:
        for hl, form in highlight_sets(d, t):
            styles = ["tree", "uncompressed", "tree+uncompressed"]
            for style in ([styles[k % 3]] if quick else styles):
                for lvl in (["T", "F"][k % 2:k % 2 + 1] if quick else ["T", "F"]):
                    k += 1
                    kw = {"shape": [4] * d} if k % 2 else {}
                    yield _mk("read", f"{lvl}.renderhl:{style}", {"hl": hl, "form": form}, {}, d, 0, t,
                              "tensor" if lvl == "T" else "root", 900000 + k, **kw)


WIDE_TREES = {
    1: [[[0, 1], [2, 0], [3, 4]], [[9, 1], [10, 2], [100, 3]], []],
    2: [[[0, [[0, 1]]], [1, [[0, 2], [5, 3]]], [2, [[0, 4], [1, 0], [5, 6]]]],           # ragged, 3-way collisions
        [[9, [[9, 1], [10, 2]]], [10, [[10, 3], [100, 4]]], [100, [[9, 5]]]],            # 9 / 10 / 100
        [[0, []], [1, [[1, 0]]], [3, [[0, 7], [2, 2]]]]],
    3: [[[0, [[0, [[0, 1], [2, 2]]], [1, [[2, 3]]]]], [1, [[0, [[2, 4]]], [2, []]]], [2, [[1, [[0, 5], [2, 6]]]]]]],
    4: [[[0, [[0, [[0, [[0, 1], [1, 2]]], [1, [[1, 3]]]]], [2, [[1, [[0, 4]]]]]]], [1, [[2, [[0, [[1, 5]]]]]]]]],
}


def gen_wide(tier):
    """input classes most harnesses miss: U format on unowned fibers / with estimated extents / restricted active
    ranges, own fiber defaults and shapes, different declared shapes on two operands, float / bool / str values and
    defaults, the operation applied twice, reads repeated after in-place growth (helpers reused), Metrics brackets,
    tuple coordinates from an earlier flatten as input of other operations, depth 4, multi-digit coordinates"""
    quick = tier == "quick"
    h = 700000
    variants = [
        {"fmt": "U", "kindset": ["free"]},                                   # unowned fiber's own format, estimated extent
        {"fmt": "UC", "kindset": ["free", "tensor", "root"]},                # mixed, estimated extents only
        {"fmt": "CU", "shape": 12, "kindset": ["tensor", "root", "sub"]},
        {"fmt": "U", "active": [1, 3], "kindset": ["free", "tensor", "root"]},
        {"active": [1, 6], "active_all": True, "shape": 12, "kindset": ["tensor", "root", "free"]},
        {"fdflt": 0, "dflt": 7, "kindset": ["tensor", "root", "sub"]},        # fibers built with default 0 in a default-7 tensor
        {"fdflt": 7, "dflt": 0, "fshape": 200, "kindset": ["tensor", "root"]},
        {"shape": 101, "shape2": 150, "kindset": ["tensor", "root"]},        # different declared shapes on the operands
        {"vals": "float", "dflt": 0, "kindset": ["free", "tensor", "root"]},  # default 0.5
        {"vals": "float", "dflt": 7, "kindset": ["tensor", "sub", "free"]},   # default 7.5, stored 0.5
        {"vals": "bool", "dflt": 0, "kindset": ["tensor", "free"]},
        {"vals": "str", "dflt": 0, "kindset": ["tensor", "free", "root"]},
        {"twice": True, "kindset": ["tensor", "free", "root", "sub"]},
        {"remut": True, "kindset": ["tensor", "root", "free"]},
        {"metrics": "inside", "kindset": ["tensor", "root"]},
        {"metrics": "built_inside", "kindset": ["tensor", "free"]},
        {"unordered": True, "twin": True, "kindset": ["free", "tensor", "root", "sub"]},    # ordered=False, no declared shape
        {"unordered": "nonunique", "twin": True, "kindset": ["free", "root"]},
        {"unordered": "sorted", "twin": True, "fmt": "U", "kindset": ["free", "tensor"]},
        {"twin": True, "kindset": ["free", "tensor", "root", "sub"]},
        {"pre": {"depth": 0, "levels": 1, "style": "tuple"}, "kindset": ["tensor", "free", "root"]},
        {"pre": {"depth": 0, "levels": 1, "style": "pair"}, "fmt": "UC", "shape": 12, "kindset": ["tensor", "root"]},
    ]
    # copies of trees whose fibers carry another default than their rank (always run, every kind)
    own = [[[0, []], [1, [[1, 0]]], [3, [[0, 7], [2, 2]]]], [[0, [[0, 7]]], [2, [[1, 0], [2, 7]]]]]
    for t in own:
        for fdflt, dflt in ((0, 7), (7, 0)):
            for op, args, kinds in (("T.fromFiber", {}, ["tensor"]), ("T.deepcopy", {}, ["tensor"]),
                                    ("F.copy", {"preserve": False}, ["root", "sub"]),
                                    ("F.copy", {"preserve": True}, ["root", "sub"]), ("F.deepcopy", {}, ["root", "sub"]),
                                    ("T.swizzleRanks", {"perm": [1, 0]}, ["tensor"]), ("T.updateCoords", {"mul": 1, "add": 1, "depth": 1}, ["tensor"])):
                for kind in kinds:
                    h += 1
                    yield _mk("value", op, args, {}, 2, dflt, t, kind, h, fdflt=fdflt, nfollow=4, n=4)
    # half-owned operands: every copy-like / transforming fiber operation on every form, always run
    htrees = [[[0, [[0, 1], [2, 2]]], [1, []], [2, [[1, 0]]]], [[1, [[1, 3]]], [3, [[0, 4], [2, 5]]]]]
    h3 = [[0, [[0, [[0, 1], [2, 2]]], [1, [[1, 3]]]]], [2, [[2, [[0, 4]]]]]]
    hops = [("F.copy", {"preserve": False}), ("F.copy", {"preserve": True}), ("F.deepcopy", {}),
            ("F.splitUniform", {"step": 2, "depth": 0}), ("F.splitEqual", {"step": 1, "depth": 0}),
            ("F.flattenRanks", {"depth": 0, "levels": 1, "style": "tuple"}),
            ("F.mergeRanks", {"depth": 0, "levels": 1, "style": "absolute"}), ("F.swapRanks", {"depth": 0}),
            ("F.add", {}), ("F.mul", {})]
    for how in ("slice", "wrap", "fsplit", "nonempty", "fflatten"):
        for ti, (d, t) in enumerate([(2, htrees[0]), (2, htrees[1]), (3, h3)]):
            for oi, (op, args) in enumerate(hops):
                for dflt in ((0, 7) if not quick else ((oi + ti) % 2 * 7,)):
                    h += 1
                    kw = {"half": how, "lo": (oi + ti) % 2, "nfollow": 4, "n": 4}
                    if op in ("F.add", "F.mul"):
                        kw["t2"] = t
                    if (oi + ti) % 3 == 0:
                        kw["twice"] = True
                    yield _mk("value", op, args, {}, d, dflt, t, "half", h, **kw)
    # operands that are RESULTS of transforms, in particular of EMPTY fibers (their fibers carry defaults, shapes and
    # active ranges no constructor call produces, e.g. an empty Fiber INSTANCE as default of a split's upper level)
    chains = [[{"k": "splitUniform", "step": 3}], [{"k": "splitEqual", "step": 2}],
              [{"k": "splitNonUniform", "splits": [0, 2]}], [{"k": "splitUniform", "step": 2}, {"k": "splitEqual", "step": 1}],
              [{"k": "flatten"}, {"k": "unflatten"}], [{"k": "swap"}], [{"k": "splitUniform", "step": 3}, {"k": "mul"}],
              [{"k": "splitUniform", "step": 2}, {"k": "copy"}], [{"k": "add"}], [{"k": "splitEqual", "step": 2}, {"k": "add"}]]
    rtrees = {1: [[], [[0, 0]], [[0, 1], [2, 2], [5, 3]]], 2: [[], [[1, []]], [[0, [[0, 1], [2, 2]]], [2, [[1, 3]]]]]}
    for d in (1, 2):
        vops = value_ops(d)
        rops = [o for o in read_ops(d) if o[0].split(".")[1] in ("getPayload", "iter", "iterShape", "shape", "str", "eq", "or",
                                                                  "counting", "uncompress", "eq_copy", "accessors")]
        for ci, chain in enumerate(chains):
            if d == 1 and chain[0]["k"] in ("flatten", "swap"):
                continue
            for ti, t in enumerate(rtrees[d]):
                for fam, ops in (("value", vops), ("read", rops)):
                    for oi, (op, args, extra) in enumerate(ops):
                        if extra.get("pre"):
                            continue
                        # quick: every operation on the EMPTY operand for the first chains, a rotating slice otherwise
                        if quick and not (ti == 0 and ci in (0, 4, 5, 6) and fam == "value") and (oi + ci + ti) % 9:
                            continue
                        kinds = ["tensor"] if op.startswith(("T.", "R.")) else ["free", "root"]
                        if any(st["k"] in ("mul", "add") for st in chain):     # fiber-level steps: free fibers only
                            if kinds == ["tensor"]:
                                continue
                            kinds = ["free"]
                        kind = kinds[(oi + ci) % len(kinds)]
                        h += 1
                        kw = {"nfollow": 6 if quick else 10, "n": 6, "pre": chain}
                        if extra.get("two"):
                            kw["t2"] = rtrees[d][(ti + 1) % 3]
                        if fam == "value" and (oi + ci) % 4 == 0:
                            kw["twice"] = True
                        if fam == "read" and (oi + ci) % 3 == 0:
                            kw["twin"] = True
                        yield _mk(fam, op, args, extra, d, 0 if (oi + ti) % 3 else 7, t, kind, h, **kw)
    for d in (1, 2, 3, 4):
        trees = WIDE_TREES[d]
        vops = value_ops(d) if d < 4 else [o for o in value_ops(3) if o[1].get("depth", 0) == 0][::3]
        rops = read_ops(d) if d < 4 else read_ops(3)[::2]
        for vi, var in enumerate(variants):
            if var.get("pre") and d < 2:
                continue
            if d == 4 and vi % 3:
                continue
            for ti, t in enumerate(trees):
                t2 = trees[(ti + 1) % len(trees)]
                for fam, ops in (("value", vops), ("read", rops)):
                    if fam == "value" and var.get("remut"):
                        continue
                    if fam == "read" and var.get("twice"):
                        continue
                    for oi, (op, args, extra) in enumerate(ops):
                        # quick: a rotating slice of the operations per (variant, tree); thorough: every operation
                        if quick and (oi + vi + ti + d) % (9 if d <= 2 else 13):
                            continue
                        if extra.get("pre") or (var.get("pre") and ("unflatten" in op or "swizzle" in op)):
                            continue
                        kinds = [k for k in var["kindset"] if (k == "tensor") == op.startswith(("T.", "R.")) or
                                 (op.startswith(("P.", "RA.")) and k != "tensor")]
                        kinds = [k for k in kinds if k != "sub" or d >= 2]
                        if not kinds:
                            continue
                        kind = kinds[(oi + ti) % len(kinds)]
                        h += 1
                        kw = {"nfollow": 4 if quick else 8, "n": 6}
                        for k in ("active", "active_all", "fdflt", "fshape", "vals", "twice", "remut", "metrics", "pre",
                                  "unordered", "twin"):
                            if k in var:
                                kw[k] = var[k]
                        if "fmt" in var:
                            kw["fmt"] = [var["fmt"][i % len(var["fmt"])] for i in range(d)]
                        # (dense readers enumerate shape^d points: large declared extents only on shallow trees)
                        small = (lambda v: v if d <= 2 else 7 + v % 5)
                        if "shape" in var:
                            kw["shape"] = [small(var["shape"])] * d
                        if "shape2" in var:
                            kw["shape2"] = [small(var["shape2"])] * d
                        if "fshape" in kw:
                            kw["fshape"] = small(kw["fshape"])
                        if extra.get("two"):
                            kw["t2"] = t2
                        yield _mk(fam, op, args, extra, d, var.get("dflt", 0 if (oi + ti) % 3 else 7), t, kind, h, **kw)


def gen(seed, tier):
    """slow rendering cases are spread evenly over the stream so that they do not pile up in one worker chunk"""
    slow = list(gen_render_hl(tier))
    stride = 100 if tier == "quick" else 300
    i = 0
    for c in itertools.chain(gen_main(seed, tier), gen_wide(tier)):
        yield c
        i += 1
        if i % stride == 0 and slow:
            yield slow.pop()
    yield from slow


def gen_main(seed, tier):
    quick = tier == "quick"
    h = 0
    # ---- small scope (seed-independent) ------------------------------------------------
    for d in (1, 2, 3):
        trees = small_trees(d, tier)
        vops = value_ops(d)
        rops = read_ops(d)
        for ti, t in enumerate(trees):
            t2 = trees[(ti * 7 + 3) % len(trees)]
            for oi, (op, args, extra) in enumerate(vops):
                kinds = kinds_for(op, d)
                ks = [kinds[(ti + oi) % len(kinds)]] if quick else kinds
                for kind in ks:
                    h += 1
                    kw = {"nfollow": 4 if quick else 8}
                    if extra.get("two"):
                        kw["t2"] = t2
                    if kind != "free" and (ti + oi) % 3 == 0:
                        kw["shape"] = [4] * d
                    if kind != "free" and (ti + oi) % 5 == 0:
                        kw["fmt"] = ["U" if (i + oi) % 2 == 0 else "C" for i in range(d)]
                        kw["shape"] = [4] * d
                    yield _mk("value", op, args, extra, d, 0 if (ti + oi) % 4 else 7, t, kind, h, **kw)
            for oi, (op, args, extra) in enumerate(rops):
                kinds = ["tensor"] if op.startswith("T.") else kinds_for(op, d)
                ks = [kinds[(ti + oi) % len(kinds)]] if quick else kinds
                for kind in ks:
                    h += 1
                    kw = {}
                    if extra.get("two"):
                        kw["t2"] = t2
                    if kind != "free" and (ti + oi) % 2 == 0:
                        kw["fmt"] = ["U" if (i + oi) % 2 == 0 else "C" for i in range(d)]
                        kw["shape"] = [4] * d
                    elif kind != "free" and (ti + oi) % 3 == 0:
                        kw["shape"] = [5] * d
                    yield _mk("read", op, args, extra, d, 0 if (ti + oi) % 4 else 7, t, kind, h, **kw)
    # ---- rendering (slow: few cases) ---------------------------------------------------
    rtrees = [(1, [[0, 1], [2, 0]]), (2, [[0, [[0, 1], [2, 2]]], [1, []], [2, [[1, 0]]]]), (2, []),
              (3, [[0, [[0, [[0, 1], [2, 2]]], [1, []]]], [2, [[2, [[1, 3]]]]]])]
    for i, (d, t) in enumerate(rtrees if quick else rtrees * 4):
        for op in RENDER:
            h += 1
            kw = {"shape": [4] * d} if i % 2 == 0 else {}
            if i >= len(rtrees):
                kw["fmt"] = ["U" if (i + j) % 2 else "C" for j in range(d)]
                kw["shape"] = [4] * d
            yield _mk("read", op, {}, {}, d, 0, t, "tensor" if op.startswith("T.") else "root", h, **kw)
    # ---- seeded random -----------------------------------------------------------------
    rng = random.Random(seed)
    nrand = 800 if quick else 24000
    for i in range(nrand):
        d = rng.choice([1, 2, 2, 3])
        n = rng.choice([3, 4, 6])
        dflt = rng.choice([0, 0, 7])
        t = H.gen_tree(rng, d, n, HI.POOL, dflt)
        t2 = H.gen_tree(rng, d, n, HI.POOL, dflt)
        fam = "value" if i % 2 == 0 else "read"
        ops = value_ops(d, n) if fam == "value" else read_ops(d, n)
        op, args, extra = rng.choice(ops)
        kind = rng.choice(["tensor"] if op.startswith("T.") or op == "R.deepcopy" else kinds_for(op, d))
        kw = {"n": n, "nfollow": rng.choice([4, 8]) if quick else rng.choice([5, 10, 20])}
        if extra.get("two"):
            kw["t2"] = t2
        if kind != "free":
            r = rng.random()
            if r < 0.35:
                kw["shape"] = [n + 1] * d
            elif r < 0.6:
                kw["shape"] = [n + 1] * d
                kw["fmt"] = [rng.choice("CU") for _ in range(d)]
            kw["subidx"] = rng.randrange(4)
            if rng.random() < 0.3:
                kw["mutable"] = True
            if rng.random() < 0.15:
                kw["shape2"] = [n + 3] * d
            if rng.random() < 0.2:                         # fibers built with another default than the tensor's
                kw["fdflt"] = 7 if dflt == 0 else 0
            if rng.random() < 0.1:
                kw["fshape"] = n + 4
        else:
            r = rng.random()
            if r < 0.2:                                    # an unowned fiber's own format, estimated extents
                kw["fmt"] = [rng.choice("CU") for _ in range(d)]
        # the widened classes, sprinkled over the random stream
        r = rng.random()
        if r < 0.1:
            kw["vals"] = rng.choice(["float", "float", "bool", "str"])
        elif r < 0.2:
            kw["active"] = [rng.randrange(0, 2), rng.randrange(2, n + 2)]
            kw["active_all"] = rng.random() < 0.5
        elif r < 0.3:
            kw["metrics"] = rng.choice(["inside", "built_inside"])
        elif r < 0.45:
            kw["twice" if fam == "value" else "remut"] = True
        elif r < 0.52 and d >= 2 and not extra.get("pre") and "unflatten" not in op and "swizzle" not in op:
            kw["pre"] = {"depth": 0, "levels": 1, "style": rng.choice(["tuple", "pair"])}
        elif r < 0.62 and not extra.get("pre") and "swizzle" not in op:
            kw["pre"] = rng.choice([[{"k": "splitUniform", "step": rng.choice([2, 3])}], [{"k": "splitEqual", "step": 2}],
                                    [{"k": "splitUniform", "step": 2}, {"k": rng.choice(["mul", "add", "copy"])}],
                                    [{"k": "add"}], [{"k": "copy"}]])
            if any(st["k"] in ("mul", "add") for st in kw["pre"]) and kind != "free":
                kw["pre"] = [kw["pre"][0]] if kw["pre"][0]["k"] not in ("mul", "add") else [{"k": "copy"}]
            if rng.random() < 0.4:
                t = []          # transforms of EMPTY operands
        if rng.random() < 0.12 and "pre" not in kw:        # fibers built with ordered=False (optionally unique=False)
            kw["unordered"] = rng.choice([True, True, "nonunique", "sorted"])
        if fam == "read" and rng.random() < 0.3:
            kw["twin"] = True
        if rng.random() < 0.08:                            # multi-digit coordinates: 9 / 10 / 100 order
            def wide(tt, lvl):
                m = {0: 0, 1: 9, 2: 10, 3: 11, 4: 100, 5: 101, 6: 110}
                return [[m.get(c, c) if lvl == 0 else c, wide(p, lvl + 1) if isinstance(p, list) else p] for c, p in tt]
            if d <= 2:
                t, t2 = wide(t, 0), wide(t2, 0)
                if extra.get("two"):
                    kw["t2"] = t2
                kw.pop("shape", None), kw.pop("shape2", None)
        yield _mk(fam, op, args, extra, d, dflt, t, kind, rng.randrange(1 << 30), **kw)


# ---------------------------------------------------------------------------------------
# classification
# ---------------------------------------------------------------------------------------

def nontrivial(case, verdict):
    t = set(verdict.get("tags", []))
    if case["fam"] == "value":
        return bool(case["t"]) and "both-sides" in t
    return "big" in t


def signature(case, verdict, failed):
    op = case["op"]
    why = verdict.get("why", "")
    impl = case.get("impl", {})
    parts = []
    if "alias:" in why or impl.get("nshared"):
        parts.append("alias:" + impl.get("alias_region", "?"))
    elif "snapshot differs" in why or "left the operand changed" in why:
        parts.append("operand-changed:" + "+".join(impl.get("changed", ["?"])))
        if "fdflt" in case and case["fdflt"] != case["dflt"]:
            parts.append("fiber-default-differs-from-rank")
    elif "follow-up" in why:
        parts.append("followup-visible")
    elif case["fam"] == "read" and "spec" in failed:
        m = re.search(r": (\w+) object", why)
        parts.append("reader-mutates:" + (m.group(1) if m else "?"))
    others = [f for f in failed if f != "spec"]
    return f"{op}:" + "/".join(parts + sorted(others)) if (parts or others) else f"{op}:spec"


def extra_evidence(results):
    per_op, shared, outcomes = {}, {}, {}
    mstep = {"mstep-ok": 0, "mstep-diff": 0}
    for c, v in results:
        per_op[c["op"]] = per_op.get(c["op"], 0) + 1
        o = c.get("impl", {}).get("outcome", "?")
        outcomes[o] = outcomes.get(o, 0) + 1
        for t in v.get("tags", []):
            if t in mstep:
                mstep[t] += 1
    return {"per_operation": per_op, "outcomes": outcomes, "followup_step_model": mstep,
            "side_observations": ["rendered_twice_pixel_identical (PIL images compared byte-wise)",
                                  "followups_invisible_to_other_side (digest of the other side's graph around every step)"]}
