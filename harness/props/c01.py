"""C01 — fibertrees stay well-formed under every history of public mutations."""
import random
from harness import common as H, histories as HI

PROP = "C01"
ALPHABET = ["ref", "posref", "refsp", "append", "extend", "setitem", "iadd", "imul", "iaddf", "imulf", "assignf",
            "populate", "denseref", "updcoords", "updpayloads", "clear"]
RULE = ("cases = (initial tree of depth 1-3 with explicit defaults / empty sub-fibers, tensor-owned or free, history of "
        "public mutators generated from the evolving state: reference insertion, getPositionRef, append / extend / "
        "position assignment with legal and order-violating arguments, in-place + and * with scalars and fibers, fiber "
        "assignment, populate loops with action tables, dense reference iteration, coordinate and payload updates, "
        "clear), checked after every step. non-trivial = a history with >= 3 distinct operation kinds or a rejected "
        "operation")


def gen(seed, tier):
    rng = random.Random(seed)
    n_hist = 16000 if tier == "quick" else 30000
    for i in range(n_hist):
        d = rng.choice([1, 2, 2, 3])
        dflt = rng.choice([0, 0, 7])
        n = rng.choice([3, 4])
        t = H.gen_tree(rng, d, n, HI.POOL, dflt)
        ln = rng.choice([4, 8, 12]) if tier == "quick" else rng.choice([8, 30, 100])
        yield {"prop": PROP, "d": d, "dflt": dflt, "t": t, "n": n, "len": ln,
               "hseed": rng.randrange(1 << 30), "fdflt": rng.random() < 0.15, "ndflt": rng.random() < 0.08,
               "cfg": rng.choice([{}, {}, {}, {"shape": [n + 3] * d}, {"fib0": True}]), "kind": "owned" if d >= 2 or rng.random() < 0.5 else "free",
               "mode": "structural" if (d >= 2 and i % 4 == 0) else "general"}
    # a few single-operation sweeps from small states: every op kind from every 1-D fiber over 3 coordinates
    k = 0
    for f in H.all_leaf_fibers(3, [0, 1]):
        for op in ALPHABET:
            k += 1
            yield {"prop": PROP, "d": 1, "dflt": 0, "t": f, "n": 3, "len": 2, "hseed": k, "kind": "free",
                   "alphabet": [op]}


def run(case):
    case["impl"] = HI.run_history(case, case.get("alphabet", ALPHABET), False)
    case["side"] = {}
    return case


def nontrivial(case, verdict):
    t = set(verdict.get("tags", []))
    kinds = t & set(ALPHABET)
    return len(kinds) >= 3 or bool(t & {"rejected-order", "rejected-index"})


def signature(case, verdict, failed):
    why = verdict.get("why", "")
    return f"history:{'/'.join(sorted(failed))}:{why.split(':')[0]}"
