"""C14 — rank ids, shapes, defaults, formats and active ranges follow the data.

Correspondence cases: constructors, every Tensor transform x parameter combination on tensors with
declared / estimated shapes, default 0 / 7, every per-rank format assignment, mutable on / off;
lazily produced fibers; unowned fibers joining a tensor.  Observation: getRankIds, getShape (both
modes), getDefault, getFormat per rank, isMutable, and per fiber the stored coordinates and
getActive()."""
import random, itertools, warnings
from harness import common as H

PROP = "C14"
RULE = ("cases = ctor (fromFiber / Tensor() / fromUncompressed / fromRandom / makePopulated; declared or estimated "
        "shape; default 0 / 7) | xf (base tensor [+ preparatory transforms], per-rank formats, mutable flag, one "
        "transform: split (uniform / nonuniform / equal / unequal / '/' / '//', depth= or rankid=, relativeCoords), "
        "swizzle (every order), swap (every depth), flatten / merge (every depth x levels x coordinate style), "
        "unflatten (after tuple / pair flatten, full and partial), updateCoords / updatePayloads) | lazy (& | ^ - << "
        "prune project intersection union coiter*Shape on free and tensor-owned fibers with explicit / declared / "
        "estimated ranges) | join (fibers with own id / shape / default / format entering a tensor via fromFiber or "
        "setRoot). small scope (seed-independent): a fixed family of depth 1-3 trees with explicit defaults, empty "
        "sub-fibers, all-default sub-fibers and the empty tree x {declared, estimated} x default {0, 7} x every format "
        "assignment x mutable {F, T} x every transform/parameter combination; random: gen_tree trees, depth 1-4. "
        "non-trivial = constructor of a non-empty tree, a transform of a non-empty tensor with a non-default format / "
        "mutable / non-zero default / declared shape, a lazy result with a non-trivial range, a join with own attributes")

IDS = ["M", "K", "N", "J"]
STYLES = ["tuple", "pair", "absolute", "relative", "linear"]


# ---------------------------------------------------------------------------------------
# observation
# ---------------------------------------------------------------------------------------

def sx(v):
    """coordinates / shapes / range bounds: int, inf, (nested) tuples"""
    if isinstance(v, bool):
        return int(v)
    if isinstance(v, int):
        return v
    if isinstance(v, float):
        if v == float("inf"):
            return "inf"
        return {"float": v.hex()}
    if isinstance(v, (tuple, list)):
        return [sx(x) for x in v]
    if v is None:
        return None
    return {"obj": type(v).__name__}


def rid(r):
    return r if isinstance(r, str) else [str(x) for x in r]


# leaf defaults that are not ints travel as integer codes (the model only compares defaults):
# the kind of the value (int / float / str) is part of the code, 7.0 is not 7
DFLT_CODES = [(0.5, 10000001), (7.0, 10000002), (-1.5, 10000003), ("e", 20000001), ("", 20000002)]


def dcode(v):
    if v is None:
        return 40000001
    if isinstance(v, bool):
        return 30000001 + int(v)
    if isinstance(v, int):
        return v
    for x, c in DFLT_CODES:
        if type(x) is type(v) and x == v:
            return c
    if isinstance(v, tuple):
        return {"t": [dcode(ft_get(x)) for x in v]}
    return {"obj": type(v).__name__, "repr": repr(v)[:40]}


def ft_get(x):
    return H.ft().Payload.get(x)


def dval(p):
    ft = H.ft()
    v = ft.Payload.get(p)
    if isinstance(v, type):
        return "Fiber" if issubclass(v, ft.Fiber) else v.__name__
    if isinstance(v, ft.Fiber):
        return "FiberObj"
    return dcode(v)


def levels_of(root):
    Fiber = H.ft().Fiber
    out = []
    cur = [root] if isinstance(root, Fiber) else []
    while cur:
        lv, nxt = [], []
        for f in cur:
            lo, hi = f.getActive()
            lv.append({"c": [sx(c) for c in f.coords], "a": [sx(lo), sx(hi)]})
            for p in f.payloads:
                if isinstance(p, Fiber):
                    nxt.append(p)
        out.append(lv)
        cur = nxt
    return out


def obs_tensor(t):
    auth = t.getShape(authoritative=True)
    return {"ids": [rid(r) for r in t.getRankIds()],
            "auth": None if auth is None else [sx(s) for s in auth],
            "shape": [sx(s) for s in t.getShape()],
            "dflt": dval(t.getDefault()),
            "fmts": [r.getFormat() for r in t.ranks],
            "mut": bool(t.isMutable()),
            "levels": levels_of(t.getRoot()),
            "allempty": [all(f.isEmpty() for f in r.getFibers()) for r in t.ranks]}


# ---------------------------------------------------------------------------------------
# building and transforming
# ---------------------------------------------------------------------------------------

def build_base(case):
    ft = H.ft()
    d, dflt = case["d"], case["dflt"]
    # "fdflt": the fibers are built with a default of their own, the tensor's replaces it on joining
    f = H.build_fiber(case["t"], d, case["fdflt"] if "fdflt" in case else dflt)
    return ft.Tensor.fromFiber(rank_ids=list(case["ids"]), fiber=f, shape=case["shape"], default=dflt)


def apply_op(t, op):
    n = op["name"]
    if n == "split":
        kw = {}
        if op.get("rel"):
            kw["relativeCoords"] = True
        k = op.get("k", 0)
        if op.get("byrank"):
            kw["rankid"] = t.getRankIds()[k]
            if op.get("depth_also") is not None:     # both keywords: the rank id decides
                kw["depth"] = op["depth_also"]
        elif k or op.get("depthkw"):
            kw["depth"] = k
        kind = op["kind"]
        if kind == "uniform":
            return t.splitUniform(op["step"], **kw)
        if kind == "nonuniform":
            return t.splitNonUniform(list(op["splits"]), **kw)
        if kind == "equal":
            return t.splitEqual(op["step"], **kw)
        if kind == "unequal":
            return t.splitUnEqual(list(op["sizes"]), **kw)
        if kind == "truediv":
            return t / op["n"]
        if kind == "floordiv":
            return t // op["n"]
        raise ValueError(kind)
    if n == "swizzle":
        return t.swizzleRanks(list(op["order"]))
    if n == "swap":
        return t.swapRanks(depth=op["k"])
    if n == "flatten":
        return t.flattenRanks(depth=op["k"], levels=op["levels"], coord_style=op["style"])
    if n == "merge":
        return t.mergeRanks(depth=op["k"], levels=op["levels"], coord_style=op["style"])
    if n == "unflatten":
        return t.unflattenRanks(depth=op["k"], levels=op["levels"])
    if n == "updc":
        delta = op["delta"]
        return t.updateCoords(lambda i, c, p: c + delta, depth=op["k"])
    if n == "updp":
        return t.updatePayloads(lambda i, c, p: p, depth=op["k"])
    raise ValueError(n)


def run_xf(case):
    t = build_base(case)
    try:
        for p in case.get("pre", []):
            t = apply_op(t, p)
    except Exception as e:      # the operand cannot be built: not this property's business
        case["impl"] = {"pre_err": H.err_class(e)}
        return case
    fm = case.get("fmts")
    if fm is not None:
        for r, f in zip(t.ranks, fm):
            r.setFormat(f)
    t.setMutable(bool(case.get("mut", False)))
    impl = {"src": obs_tensor(t)}
    side = {}
    try:
        r = apply_op(t, case["op"])
        impl["res"] = obs_tensor(r)
        # the operand reports what it reported before
        side["operand_unchanged"] = obs_tensor(t) == impl["src"]
        # the same transform of the same operand once more: the same report
        r2 = apply_op(t, case["op"])
        side["repeatable"] = obs_tensor(r2) == impl["res"]
        # getShape(rank_id) / getShape([ids]) agree with the full list
        try:
            ids = r.getRankIds()
            full = r.getShape()
            side["shape_queries"] = all(r.getShape([i]) == [full[n]] for n, i in enumerate(ids)) and \
                all(r.getShape(i) == full[n] for n, i in enumerate(ids) if isinstance(i, str)) and \
                r.getShape(list(reversed(ids))) == list(reversed(full))
        except Exception:
            side["shape_queries"] = False
        # the result's attributes are its own: changing them leaves the operand alone
        try:
            for rk in r.ranks:
                rk.setFormat("U" if rk.getFormat() == "C" else "C")
            r.setMutable(not r.isMutable())
            r.setDefault(12345)
            r.setShape([s_ + 1 if isinstance(s_, int) else s_ for s_ in r.getShape()])
            side["attrs_not_shared"] = obs_tensor(t) == impl["src"]
        except Exception:
            side["attrs_not_shared"] = False
    except Exception as e:
        impl["res"] = {"err": H.err_class(e)}
        case["implerr"] = H.err_class(e)
    case["impl"] = impl
    case["side"] = side
    return case


def _nest(tree, depth, dims, dflt):
    if depth == 1:
        out = [dflt] * dims[0]
        for c, v in tree:
            out[c] = v
        return out
    sub = {c: s for c, s in tree}
    return [_nest(sub.get(c, []), depth - 1, dims[1:], dflt) for c in range(dims[0])]


def run_ctor(case):
    ft = H.ft()
    how, d, dflt = case["how"], case["d"], case["dflt"]
    ids = None if case.get("ids") is None else list(case["ids"])
    shape = case["shape"]
    try:
        if how == "fromFiber":
            t = ft.Tensor.fromFiber(rank_ids=ids, fiber=H.build_fiber(case["t"], d, dflt), shape=shape, default=dflt)
        elif how == "empty":
            t = ft.Tensor(rank_ids=ids, shape=shape, default=dflt)
        elif how == "fromUncompressed":
            nest = case["nest"] if case.get("nest") is not None else _nest(case["t"], d, case["dims"], dflt)
            t = ft.Tensor.fromUncompressed(rank_ids=ids, root=nest, shape=shape, default=dflt)
        elif how == "makePopulated-nodefault":
            t = ft.Tensor.makePopulated(ids, list(case["dims"]), initial=case.get("initial", 1))
        elif how == "makePopulated":
            t = ft.Tensor.makePopulated(ids, list(case["dims"]), initial=case.get("initial", 1), default=dflt)
        elif how == "fromRandom":
            t = ft.Tensor.fromRandom(rank_ids=ids, shape=list(case["dims"]), density=case["density"],
                                     interval=5, seed=case["rseed"], default=dflt)
        else:
            raise ValueError(how)
        o = obs_tensor(t)
        o["tree"] = H.snapshot(t.getRoot())
        case["impl"] = {"res": o}
    except Exception as e:
        case["impl"] = {"res": {"err": H.err_class(e)}}
        case["implerr"] = H.err_class(e)
    return case


def _mk_fiber(spec):
    """free fiber from {"c": coords, "shape": opt, "act": opt, "id": opt}"""
    ft = H.ft()
    kw = {}
    if spec.get("shape") is not None:
        kw["shape"] = spec["shape"]
    if spec.get("act") is not None:
        kw["active_range"] = tuple(spec["act"])
    if spec.get("dflt") is not None:
        kw["default"] = spec["dflt"]
    f = ft.Fiber(list(spec["c"]), [1 + (c % 3) for c in spec["c"]], **kw)
    if spec.get("id") is not None:
        f.getRankAttrs().setId(spec["id"])
    if spec.get("fmt") is not None and not spec.get("owned"):
        f.getRankAttrs().setFormat(spec["fmt"])
    if spec.get("owned"):
        t = ft.Tensor.fromFiber(rank_ids=[spec.get("id") or "M"], fiber=f, shape=None if spec.get("shape") is None
                                else [spec["shape"]])
        f = t.getRoot()
        if spec.get("act") is not None:
            f.setActive(tuple(spec["act"]))
        if spec.get("fmt") is not None:
            t.setFormat(t.getRankIds()[0], spec["fmt"])
        if spec.get("dflt") is not None:
            t.setDefault(spec["dflt"])
        return f, t
    return f, None


def _fattr(f):
    lo, hi = f.getActive()
    return {"id": f.getRankAttrs().getId(), "a": [sx(lo), sx(hi)]}


def run_lazy(case):
    ft = H.ft()
    a, ta = _mk_fiber(case["a"])
    b, tb = _mk_fiber(case["b"])
    op = case["op"]
    n = op["name"]
    # a lazy fiber as first operand: the result of an earlier operator on (a, b)
    pre = case.get("a_pre")
    if pre == "and":
        a = a & b
    elif pre == "sub":
        a = a - b
    elif pre == "prune":
        a = a.prune(lambda i, c, p: True)
    elif pre == "project":
        a = a.project(lambda c: c + 1, rank_id="P")
    elif pre == "or":
        a = a | b
    impl = {"a": _fattr(a), "b": _fattr(b)}
    try:
        a_shape_before = sx(a.getShape(all_ranks=False)) if not a.isLazy() else None
    except Exception:
        a_shape_before = None
    try:
        if pre is not None:
            impl["a_coords"] = [sx(c) for c, _ in a]
        if not isinstance(ft.Payload.get(a.getDefault()), tuple):     # else: no scalar default to follow
            impl["a_dflt"] = dval(a.getDefault())
        impl["b_dflt"] = dval(b.getDefault())
    except Exception:
        pass
    try:
        if n == "and":
            z = a & b
        elif n == "or":
            z = a | b
        elif n == "xor":
            z = a ^ b
        elif n == "sub":
            z = a - b
        elif n == "populate":
            z = a << b
        elif n == "prune":
            z = a.prune(lambda i, c, p: c % 2 == 0)
        elif n == "intersection":
            z = ft.Fiber.intersection(a, b, b)
        elif n == "intersection-lf":
            z = ft.Fiber.intersection(a, b, b, style="leader-follower")
        elif n == "union":
            z = ft.Fiber.union(a, b, b)
        elif n == "coiterShape":
            z = ft.Fiber.coiterShape([a, b])
        elif n == "coiterActiveShape":
            z = ft.Fiber.coiterActiveShape([a, b])
        elif n == "coiterRangeShape":
            z = ft.Fiber.coiterRangeShape([a, b], op["lo"], op["hi"])
        elif n == "coiterShapeRef":
            z = ft.Fiber.coiterShapeRef([a, b])
        elif n == "coiterActiveShapeRef":
            z = ft.Fiber.coiterActiveShapeRef([a, b])
        elif n == "coiterRangeShapeRef":
            z = ft.Fiber.coiterRangeShapeRef([a, b], op["lo"], op["hi"])
        elif n == "project":
            k, m = op["k"], op["m"]
            kw = {}
            if op.get("interval") is not None:
                kw["interval"] = tuple(op["interval"])
            if op.get("rank_id") is not None:
                kw["rank_id"] = op["rank_id"]
            z = a.project(lambda c: k * c + m, **kw)
        else:
            raise ValueError(n)
        res = _fattr(z)
        res["lazy"] = bool(z.isLazy())
        try:
            res["dflt"] = dval(z.getDefault())
        except Exception:
            res["dflt"] = None
        try:
            res["coords"] = [sx(c) for c, _ in z]
            if n != "populate":         # iterating a populate inserts into the destination
                res["twice_same"] = [sx(c) for c, _ in z] == res["coords"]
        except Exception as e:
            res["coords"] = None
            res["iter_err"] = H.err_class(e)
        impl["res"] = res
        if n in ("coiterShape", "coiterShapeRef"):
            impl["a_shape"] = a_shape_before
    except Exception as e:
        impl["res"] = {"err": H.err_class(e)}
        case["implerr"] = H.err_class(e)
    case["impl"] = impl
    return case


def run_join(case):
    """fibers with own attributes (per level) enter a tensor"""
    ft = H.ft()
    own = case["own"]          # per level: {"id", "shape", "dflt", "fmt"} (values may be None)
    d = case["d"]

    count = [0] * d          # fibers built so far per level (left to right)

    def build(tree, lvl):
        o = own[lvl]
        kw = {}
        j = count[lvl]
        count[lvl] += 1
        if o.get("shapes"):          # sibling / cousin fibers carrying DIFFERENT shapes of their own
            kw["shape"] = o["shapes"][j % len(o["shapes"])]
        elif o.get("shape") is not None:
            kw["shape"] = o["shape"]
        if lvl == d - 1:
            f = ft.Fiber([c for c, _ in tree], [v for _, v in tree], default=o.get("dflt") or 0, **kw)
        else:
            f = ft.Fiber([c for c, _ in tree], [build(s, lvl + 1) for _, s in tree], **kw)
        if o.get("id") is not None:
            f.getRankAttrs().setId(o["id"])
        if o.get("fmt") is not None:
            f.getRankAttrs().setFormat(o["fmt"])
        return f

    root = build(case["t"], 0)
    ids, shape, dflt = list(case["ids"]), case["shape"], case["dflt"]
    try:
        if case["via"] == "fromFiber":
            t = ft.Tensor.fromFiber(rank_ids=ids, fiber=root, shape=shape, default=dflt)
        else:
            t = ft.Tensor(rank_ids=ids, shape=shape, default=dflt)
            t.setRoot(root)
        ranks = []
        for r in t.ranks:
            a = r.getAttrs()
            ranks.append({"id": rid(a.getId()), "shape": sx(a.getShape()), "est": bool(a.getEstimatedShape()),
                          "dflt": dval(r.getDefault()), "fmt": a.getFormat()})
        fibers = []
        cur = [t.getRoot()]
        lvl = 0
        while cur:
            lv, nxt = [], []
            for f in cur:
                lo, hi = f.getActive()
                lv.append({"id": rid(f.getRankAttrs().getId()), "shape": sx(f.getShape(all_ranks=False)),
                           "dflt": dval(f.getDefault()), "fmt": f.getRankAttrs().getFormat(),
                           "a": [sx(lo), sx(hi)], "c": [sx(c) for c in f.coords],
                           "owned": f.getOwner() is t.ranks[lvl]})
                for p in f.payloads:
                    if isinstance(p, ft.Fiber):
                        nxt.append(p)
            fibers.append(lv)
            cur = nxt
            lvl += 1
        case["impl"] = {"ranks": ranks, "fibers": fibers, "shape": [sx(s) for s in t.getShape()]}
    except Exception as e:
        case["impl"] = {"err": H.err_class(e)}
        case["implerr"] = H.err_class(e)
    return case


def run_fill(case):
    """a tensor created EMPTY (Tensor(rank_ids=..), with or without shape) and filled point by point;
    between two batches the tensor may be queried (getShape / getActive / str), which must not change
    anything: the twin that is not queried must end up reporting the same"""
    ft = H.ft()

    def fresh():
        return ft.Tensor(rank_ids=list(case["ids"]), shape=case["shape"], default=case["dflt"])

    def fill(t, pts):
        for n, pt in enumerate(pts):
            ref = t.getRoot().getPayloadRef(*pt)
            ref <<= 1 + n

    def query(t):
        t.getShape()
        t.getShape(authoritative=True)
        for r in t.ranks:
            r.getShape(all_ranks=False)
            for f in r.getFibers():
                f.getActive()
                f.getShape(all_ranks=False)
        str(t)

    t = fresh()
    impl = {"src": obs_tensor(t)}
    try:
        fill(t, case["points1"])
        if case.get("query"):
            query(t)
        fill(t, case["points2"])
        impl["res"] = obs_tensor(t)
        twin = fresh()
        fill(twin, case["points1"])
        fill(twin, case["points2"])
        case["side"] = {"query_is_pure": obs_tensor(twin) == impl["res"]}
    except Exception as e:
        impl["res"] = {"err": H.err_class(e)}
        case["implerr"] = H.err_class(e)
    case["impl"] = impl
    return case


def run_mut(case):
    """a tensor is built, then grown IN PLACE at a point that is absent (getPayloadRef + assignment,
    or Fiber.append at the root); observed before and after"""
    if case["how"] == "fill":
        return run_fill(case)
    t = build_base(case)
    impl = {"src": obs_tensor(t)}
    try:
        root = t.getRoot()
        pt = list(case["point"])
        if case["how"] == "ref":
            ref = root.getPayloadRef(*pt)
            ref <<= case.get("value", 5)
        else:
            ft = H.ft()
            val = case.get("value", 5)
            for _ in range(case["d"] - 1):
                val = ft.Fiber([pt[-1]], [val])
                pt = pt[:-1]
            root.append(pt[0], val)
        impl["res"] = obs_tensor(t)
    except Exception as e:
        impl["res"] = {"err": H.err_class(e)}
        case["implerr"] = H.err_class(e)
    case["impl"] = impl
    return case


def run(case):
    warnings.simplefilter("ignore")
    k = case["kind"]
    if k == "mut":
        return run_mut(case)
    if k == "xf":
        return run_xf(case)
    if k == "ctor":
        return run_ctor(case)
    if k == "lazy":
        return run_lazy(case)
    if k == "join":
        return run_join(case)
    raise ValueError(k)


# ---------------------------------------------------------------------------------------
# generators
# ---------------------------------------------------------------------------------------

def _cover(tree, depth):
    """smallest shape covering the tree, +1 slack"""
    dims = [0] * depth

    def walk(t, l):
        for c, s in t:
            dims[l] = max(dims[l], c + 1)
            if l + 1 < depth:
                walk(s, l + 1)
    walk(tree, 0)
    return [x + 1 for x in dims]


# depth -> trees (explicit default 0/7 leaves appear through dflt choice; empty and all-default sub-fibers)
TREES = {
    1: [[], [[1, 5]], [[0, 1], [2, 0], [3, 7]]],
    2: [[], [[0, [[1, 5], [2, 6]]], [2, [[0, 7]]]], [[0, []], [1, [[0, 0], [2, 7]]], [3, [[1, 3]]]],
        [[1, [[0, 1], [3, 2]]], [2, [[3, 4]]]], [[3, []]]],
    3: [[], [[0, [[0, [[3, 1], [4, 2]]], [1, [[4, 3]]]]], [2, [[1, [[0, 9]]]]]],
        [[0, [[1, []], [2, [[0, 7], [1, 0]]]]], [1, []], [3, [[0, [[2, 5]]]]]]],
}


def _tree_family(d):
    """thorough tier: every tree of a small family (absent / empty / explicit default / values)"""
    leafs = [[c, v] for c in (0, 2) for v in (0, 5)]
    if d == 1:
        return [t for t in H.all_leaf_fibers(3, [0, 5, 7])]
    subs1 = [[], [[0, 0]], [[1, 5]], [[0, 5], [2, 7]]]
    if d == 2:
        return [[[c, s] for c, s in zip((0, 2), combo) if s is not None]
                for combo in itertools.product([None] + subs1, repeat=2)]
    subs2 = [[], [[1, []]], [[0, [[1, 5]]]], [[0, [[0, 0]]], [2, [[2, 7]]]]]
    return [[[c, s] for c, s in zip((0, 1), combo) if s is not None]
            for combo in itertools.product([None] + subs2, repeat=2)]


def _xf(d, t, ids, shape, dflt, fmts, mut, op, pre=None):
    return {"prop": PROP, "kind": "xf", "d": d, "t": t, "ids": ids, "shape": shape, "dflt": dflt,
            "fmts": fmts, "mut": mut, "op": op, "pre": pre or []}


def _split_ops(d, n, rng=None):
    ops = []
    for k in range(d):
        for rel in (False, True):
            ops.append({"name": "split", "kind": "uniform", "step": 2, "k": k, "rel": rel, "depthkw": True})
        ops.append({"name": "split", "kind": "uniform", "step": 3, "k": k, "byrank": True})
        ops.append({"name": "split", "kind": "nonuniform", "splits": [0, 2], "k": k, "depthkw": True})
        ops.append({"name": "split", "kind": "equal", "step": 2, "k": k, "byrank": True})
        ops.append({"name": "split", "kind": "unequal", "sizes": [1, 2], "k": k, "depthkw": True})
    ops.append({"name": "split", "kind": "truediv", "n": 2, "k": 0})
    ops.append({"name": "split", "kind": "floordiv", "n": 2, "k": 0})
    # legal but unusual: rankid alone for every flavour, and depth= AND rankid= together, naming
    # the same rank or different ones (the rank id decides, in the tensor and in the fiber method)
    flav = [{"kind": "uniform", "step": 2}, {"kind": "nonuniform", "splits": [0, 2]},
            {"kind": "equal", "step": 2}, {"kind": "unequal", "sizes": [1, 2]}]
    for k in range(d):
        for fl in flav:
            ops.append(dict({"name": "split", "k": k, "byrank": True}, **fl))
            for k2 in range(d):
                ops.append(dict({"name": "split", "k": k, "byrank": True, "depth_also": k2}, **fl))
    return ops


def _ops_for(d, ids):
    ops = list(_split_ops(d, 4))
    for order in itertools.permutations(ids):
        ops.append({"name": "swizzle", "order": list(order)})
    for k in range(d - 1):
        ops.append({"name": "swap", "k": k})
    for k in range(d - 1):
        for levels in range(1, d - k):
            for st in STYLES:
                ops.append({"name": "merge", "k": k, "levels": levels, "style": st})
            for st in ("tuple", "pair", "linear"):
                ops.append({"name": "flatten", "k": k, "levels": levels, "style": st})
    for k in range(d):
        ops.append({"name": "updc", "k": k, "delta": 1})
        ops.append({"name": "updp", "k": k})
    return ops


def _unflatten_cases(d, ids):
    """(pre, op, number of ranks of the operand)"""
    out = []
    for k in range(d - 1):
        for levels in range(1, d - k):
            for st in ("tuple", "pair"):
                pre = [{"name": "flatten", "k": k, "levels": levels, "style": st}]
                for ul in range(1, levels + 1):
                    out.append((pre, {"name": "unflatten", "k": k, "levels": ul}, d - levels))
    return out


def _fmt_assignments(n):
    return [list(x) for x in itertools.product("CU", repeat=n)]


def _small_scope(tier):
    quick = tier == "quick"
    # constructors
    for d in (1, 2, 3):
        ids = IDS[:d]
        for t in TREES[d]:
            for dflt in (0, 7):
                for shape in (None, _cover(t, d)):
                    yield {"prop": PROP, "kind": "ctor", "how": "fromFiber", "d": d, "t": t, "ids": ids,
                           "shape": shape, "dflt": dflt}
                dims = _cover(t, d)
                for shape in (None, [x + 2 for x in dims]):
                    yield {"prop": PROP, "kind": "ctor", "how": "fromUncompressed", "d": d, "t": t, "ids": ids,
                           "shape": shape, "dims": dims, "dflt": dflt}
        for dflt in (0, 7):
            for shape in (None, [3, 4, 5][:d]):
                yield {"prop": PROP, "kind": "ctor", "how": "empty", "d": d, "t": [], "ids": ids, "shape": shape,
                       "dflt": dflt}
            yield {"prop": PROP, "kind": "ctor", "how": "makePopulated", "d": d, "t": [], "ids": ids, "shape": None,
                   "dims": [2, 3, 2][:d], "dflt": dflt, "initial": 1}
            for rs in (1, 2):
                yield {"prop": PROP, "kind": "ctor", "how": "fromRandom", "d": d, "t": [], "ids": ids, "shape": None,
                       "dims": [4, 3, 3][:d], "dflt": dflt, "density": [1.0, 0.6, 0.5][:d] if dflt == 0 else 0.5,
                       "rseed": rs}
    # transforms: every Meta configuration x every op (Meta part does not depend on the tree: one
    # tree per configuration, rotating), and every tree x every op for a fixed set of configurations
    for d in (1, 2, 3):
        ids = IDS[:d]
        trees = TREES[d]
        ops = _ops_for(d, ids)
        i = 0
        for fmts in _fmt_assignments(d):
            for mut in (False, True):
                for dflt in (0, 7):
                    for declared in (False, True):
                        for op in ops:
                            i += 1
                            if quick and d == 3 and (i % 3):
                                continue
                            t = trees[i % len(trees)]
                            yield _xf(d, t, ids, _cover(t, d) if declared else None, dflt, fmts, mut, op)
        for t in trees:
            for declared in (False, True):
                for op in ops:
                    yield _xf(d, t, ids, _cover(t, d) if declared else None, 0, ["C"] * d, False, op)
        if not quick:
            fms = _fmt_assignments(d)
            for t in _tree_family(d):
                for declared in (False, True):
                    for dflt in (0, 7):
                        for op in ops:
                            i += 1
                            yield _xf(d, t, ids, _cover(t, d) if declared else None, dflt, fms[i % len(fms)],
                                      bool(i & 1), op)
                        for pre, op, nr in _unflatten_cases(d, ids):
                            i += 1
                            yield _xf(d, t, ids, _cover(t, d) if declared else None, dflt,
                                      _fmt_assignments(nr)[i % (2 ** nr)], bool(i & 1), op, pre)
                        yield {"prop": PROP, "kind": "ctor", "how": "fromFiber", "d": d, "t": t, "ids": ids,
                               "shape": _cover(t, d) if declared else None, "dflt": dflt}
        # unflatten (operand = flattened tensor; formats are set on the flattened operand)
        for pre, op, nr in _unflatten_cases(d, ids):
            for fmts in _fmt_assignments(nr):
                for mut in (False, True):
                    for dflt in (0, 7):
                        for declared in (False, True):
                            i += 1
                            t = trees[i % len(trees)]
                            yield _xf(d, t, ids, _cover(t, d) if declared else None, dflt, fmts, mut, op, pre)
        # a transform of a transform: re-split one level down, flatten of a split, split of a swizzle
        for t in trees[1:]:
            for declared in (False, True):
                sh = _cover(t, d) if declared else None
                pre = [{"name": "split", "kind": "uniform", "step": 3, "k": 0, "depthkw": True}]
                yield _xf(d, t, ids, sh, 0, None, False,
                          {"name": "split", "kind": "uniform", "step": 2, "k": 1, "depthkw": True}, pre)
                yield _xf(d, t, ids, sh, 0, None, False,
                          {"name": "split", "kind": "uniform", "step": 1, "k": 1, "depthkw": True}, pre)
                yield _xf(d, t, ids, sh, 0, None, False,
                          {"name": "merge", "k": 0, "levels": 1, "style": "absolute"}, pre)
                pre_rel = [{"name": "split", "kind": "uniform", "step": 3, "k": 0, "rel": True, "depthkw": True}]
                yield _xf(d, t, ids, sh, 0, None, False,
                          {"name": "merge", "k": 0, "levels": 1, "style": "relative"}, pre_rel)
                if d >= 2:
                    pre2 = [{"name": "swizzle", "order": list(reversed(ids))}]
                    yield _xf(d, t, ids, sh, 0, None, True,
                              {"name": "split", "kind": "uniform", "step": 2, "k": 0, "depthkw": True}, pre2)
    # swizzles of split tensors in EVERY rank order (the lower half of a split above the upper one
    # makes a rebuilt fiber span several operand ranges), and of splits of splits
    span = {1: [[[0, 1], [1, 2], [5, 3], [7, 4]], [[2, 5]], []],
            2: [[[0, [[1, 5], [6, 6]]], [2, [[0, 7]]], [5, [[3, 1], [4, 2]]]], [[1, [[0, 1], [3, 2]]], [6, [[3, 4]]]]]}
    for d in (1, 2):
        ids = IDS[:d]
        for t in span[d] + TREES[d][1:]:
            for declared in (False, True):
                sh = _cover(t, d) if declared else None
                for k in range(d):
                    splits = [{"name": "split", "kind": "uniform", "step": 4, "k": k, "depthkw": True},
                              {"name": "split", "kind": "uniform", "step": 2, "k": k, "byrank": True},
                              {"name": "split", "kind": "equal", "step": 2, "k": k, "depthkw": True},
                              {"name": "split", "kind": "nonuniform", "splits": [0, 3], "k": k, "depthkw": True}]
                    for sp in splits:
                        new_ids = ids[:k] + [ids[k] + ".1", ids[k] + ".0"] + ids[k + 1:]
                        for order in itertools.permutations(new_ids):
                            i += 1
                            yield _xf(d, t, ids, sh, 0, None, bool(i & 1), {"name": "swizzle", "order": list(order)}, [sp])
        if d == 1:
            t = span[1][0]
            pre = [{"name": "split", "kind": "uniform", "step": 4, "k": 0, "depthkw": True},
                   {"name": "split", "kind": "uniform", "step": 2, "k": 1, "depthkw": True}]
            for order in itertools.permutations(["M.1", "M.0.1", "M.0.0"]):
                for declared in (False, True):
                    yield _xf(1, t, ids, _cover(t, 1) if declared else None, 0, None, False,
                              {"name": "swizzle", "order": list(order)}, pre)
    # fibers built with a default of their own (0) inside a tensor with another one; float / str
    # defaults; coordinates 9 / 10 / 100 (numeric, not string order); transforms of a tensor that
    # already holds tuple coordinates from an earlier flatten
    wide = {1: [[9, 1], [10, 2], [100, 3]], 2: [[9, [[10, 1], [100, 2]]], [10, [[9, 3]]], [100, [[2, 4], [11, 5]]]]}
    for d in (1, 2, 3):
        ids = IDS[:d]
        ops = _ops_for(d, ids)
        for dflt, fd in ((7, 0), (0, 7), (0.5, 0.5), (7.0, 0), ("e", "e"), (-1.5, 0), (None, None), ("", ""),
                         (None, 0)):
            for declared in (False, True):
                for op in ops:
                    i += 1
                    if d == 3 and (i % 4):
                        continue
                    t = TREES[d][1 + i % (len(TREES[d]) - 1)]
                    c = _xf(d, t, ids, _cover(t, d) if declared else None, dflt, None, bool(i & 1), op)
                    c["fdflt"] = fd
                    yield c
        if d in wide:
            t = wide[d]
            for declared in (False, True):
                for op in ops:
                    yield _xf(d, t, ids, _cover(t, d) if declared else None, 0, None, False, op)
                yield {"prop": PROP, "kind": "ctor", "how": "fromFiber", "d": d, "t": t, "ids": ids,
                       "shape": _cover(t, d) if declared else None, "dflt": 0}
    for t in TREES[3][1:]:
        for declared in (False, True):
            sh = _cover(t, 3) if declared else None
            for st in ("tuple", "pair"):
                for k, rest in ((0, [["M", "K"], "N"]), (1, ["M", ["K", "N"]])):
                    pre = [{"name": "flatten", "k": k, "levels": 1, "style": st}]
                    # (swizzleRanks cannot take a tensor with a list rank id: unhashable dict key, TypeError)
                    yield _xf(3, t, IDS[:3], sh, 7, None, True, {"name": "swizzle", "order": rest}, pre)
                    yield _xf(3, t, IDS[:3], sh, 7, None, True, {"name": "swap", "k": 0}, pre)
                    yield _xf(3, t, IDS[:3], sh, 0, None, False, {"name": "updp", "k": 1 - k}, pre)
                    yield _xf(3, t, IDS[:3], sh, 0, None, False,
                              {"name": "split", "kind": "uniform", "step": 2, "k": 1 - k, "depthkw": True}, pre)
                    yield _xf(3, t, IDS[:3], sh, 0, None, False,
                              {"name": "split", "kind": "equal", "step": 1, "k": k, "depthkw": True}, pre)
    # constructors: rank ids synthesized ("R1", "R0"), float / str defaults
    for d in (1, 2, 3):
        for t in TREES[d][1:3]:
            for shape in (None, _cover(t, d)):
                yield {"prop": PROP, "kind": "ctor", "how": "fromFiber", "d": d, "t": t, "ids": None,
                       "shape": shape, "dflt": 0}
            for dv in (0.5, 7.0, "e", None, ""):
                yield {"prop": PROP, "kind": "ctor", "how": "fromFiber", "d": d, "t": t, "ids": IDS[:d],
                       "shape": None, "dflt": dv, "dflt_code": dcode(dv)}
                yield {"prop": PROP, "kind": "ctor", "how": "empty", "d": d, "t": [], "ids": IDS[:d],
                       "shape": [3, 4, 5][:d], "dflt": dv, "dflt_code": dcode(dv)}
                yield {"prop": PROP, "kind": "ctor", "how": "makePopulated", "d": d, "t": [], "ids": IDS[:d],
                       "shape": None, "dims": [2, 3, 2][:d], "dflt": dv, "dflt_code": dcode(dv), "initial": 1}
                if dv is None or dv == "":
                    yield {"prop": PROP, "kind": "ctor", "how": "fromUncompressed", "d": d, "t": t, "ids": IDS[:d],
                           "shape": None, "dims": _cover(t, d), "dflt": dv, "dflt_code": dcode(dv)}
        # makePopulated with its OWN default (None: "no empty value")
        yield {"prop": PROP, "kind": "ctor", "how": "makePopulated-nodefault", "d": d, "t": [], "ids": IDS[:d],
               "shape": None, "dims": [2, 3, 2][:d], "dflt": None, "dflt_code": dcode(None), "initial": 1}
    # two-step pipelines with a setFormat / setMutable IN BETWEEN: a first transform (flatten, split,
    # swizzle, swap), formats set on its RESULT (ranks with list ids included), then a second transform
    # at another depth / of other ranks that must leave the untouched ranks' formats alone
    def _mid_ids(ids, pre):
        n = pre["name"]
        if n == "flatten":
            k, L = pre["k"], pre["levels"]
            return ids[:k] + [ids[k:k + L + 1]] + ids[k + L + 1:]
        if n == "split":
            k = pre["k"]
            return ids[:k] + [ids[k] + ".1", ids[k] + ".0"] + ids[k + 1:]
        if n == "swizzle":
            return list(pre["order"])
        if n == "swap":
            k = pre["k"]
            return ids[:k] + [ids[k + 1], ids[k]] + ids[k + 2:]
        return ids

    def _second_ops(mid):
        atom = [isinstance(x, str) for x in mid]
        out = [{"name": "updp", "k": 0}]
        for k2 in range(len(mid) - 1):
            if atom[k2] and atom[k2 + 1]:
                out.append({"name": "flatten", "k": k2, "levels": 1, "style": "tuple"})
                out.append({"name": "merge", "k": k2, "levels": 1, "style": "pair"})
                out.append({"name": "swap", "k": k2})
        for k2 in range(len(mid)):
            if atom[k2]:
                out.append({"name": "split", "kind": "uniform", "step": 2, "k": k2, "depthkw": True})
            else:
                out.append({"name": "unflatten", "k": k2, "levels": len(mid[k2]) - 1})
        if all(atom):       # swizzleRanks keys a dict by rank id: a list id raises TypeError (no tensor produced)
            out.append({"name": "swizzle", "order": mid[1:] + mid[:1]})
            out.append({"name": "swizzle", "order": list(reversed(mid))})
        return out

    pipe_trees = {3: TREES[3][1], 4: [[0, [[1, [[2, [[3, 1], [5, 2]]]]], [2, [[0, [[4, 3]]]]]]], [1, [[3, [[1, [[0, 4]]]]]]]]}
    pipe_sizes = {3: _cover(TREES[3][1], 3), 4: [3, 5, 4, 7]}
    for d in (3, 4):
        ids = IDS[:d]
        pres = [{"name": "flatten", "k": k, "levels": L, "style": st}
                for k in range(d - 1) for L in range(1, min(2, d - 1 - k) + 1) for st in ("tuple", "pair")]
        pres += [{"name": "split", "kind": "uniform", "step": 2, "k": k, "depthkw": True} for k in range(d)]
        pres += [{"name": "swizzle", "order": list(reversed(ids))}, {"name": "swap", "k": 0}]
        for pre in pres:
            mid = _mid_ids(ids, pre)
            fms = _fmt_assignments(len(mid))
            if len(fms) > 8:
                fms = [fms[j] for j in (1, 6, len(fms) // 2 + 1, len(fms) - 1)] + [["U"] + ["C"] * (len(mid) - 1)]
            for op2 in _second_ops(mid):
                for fm in fms:
                    i += 1
                    yield _xf(d, pipe_trees[d], ids, pipe_sizes[d] if (i & 1) else None, 7 if (i & 2) else 0, fm,
                              bool(i & 4), op2, [pre])
    # four and five ranks with a DISTINCT declared size per rank: flatten / merge at every depth x
    # levels (up to levels = 3 / 4) x style, and unflatten after the tuple / pair flattens -- shape and
    # coordinates must follow the same re-arrangement
    deep = {4: [[[0, [[1, [[2, [[3, 1], [5, 2]]]]], [2, [[0, [[4, 3]]]]]]], [1, [[3, [[1, [[0, 4]]]]]]]], []],
            5: [[[1, [[0, [[2, [[3, [[4, 1], [6, 2]]]]]]]]], [2, [[3, [[0, [[1, [[5, 3]]]]]]]]]]]}
    sizes = {4: [3, 5, 4, 7], 5: [4, 5, 3, 6, 8]}
    ids5 = IDS + ["H"]
    for d in (4, 5):
        ids = ids5[:d]
        for t in deep[d]:
            for sh in (sizes[d], None):
                for k in range(d - 1):
                    for levels in range(1, d - k):
                        for st in STYLES:
                            i += 1
                            yield _xf(d, t, ids, sh, 7 if (i & 1) else 0, None, bool(i & 2),
                                      {"name": "merge", "k": k, "levels": levels, "style": st})
                        for st in ("tuple", "pair", "linear"):
                            i += 1
                            yield _xf(d, t, ids, sh, 0, None, False,
                                      {"name": "flatten", "k": k, "levels": levels, "style": st})
                        for st in ("tuple", "pair"):
                            pre = [{"name": "flatten", "k": k, "levels": levels, "style": st}]
                            for ul in sorted({1, levels}):
                                yield _xf(d, t, ids, sh, 0, None, False,
                                          {"name": "unflatten", "k": k, "levels": ul}, pre)
                if d == 4:
                    for order in itertools.permutations(ids):
                        yield _xf(d, t, ids, sh, 0, None, False, {"name": "swizzle", "order": list(order)})
                    for k in range(d - 1):
                        yield _xf(d, t, ids, sh, 0, None, False, {"name": "swap", "k": k})
                    for k in range(d):
                        yield _xf(d, t, ids, sh, 0, None, False,
                                  {"name": "split", "kind": "uniform", "step": 2, "k": k, "depthkw": True})
    # joins of fibers that carry DIFFERENT shapes of their own within one rank, the largest not first
    jt = {1: [[[1, 5], [6, 2]]],
          2: [[[0, [[1, 5], [2, 6]]], [2, [[6, 7]]], [3, [[4, 1]]]], [[1, [[0, 1]]], [4, [[7, 2], [8, 3]]]]]}
    for d in (1, 2):
        ids = IDS[:d]
        for t in jt[d]:
            for shapes in ([3, 9, 5], [9, 3], [7, 9, 8], [10, 9]):
                own = [{"id": None, "shape": 7 if d == 2 else None, "dflt": None, "fmt": None} for _ in range(d)]
                own[d - 1] = {"id": None, "shape": None, "shapes": shapes, "dflt": None, "fmt": None}
                if d == 1:
                    own[0]["shapes"] = [max(shapes)]
                for via in ("fromFiber", "setRoot"):
                    yield {"prop": PROP, "kind": "join", "d": d, "t": t, "ids": ids, "shape": None, "dflt": 0,
                           "via": via, "own": own}
    # a constructed tensor grown in place at an absent point: inside and beyond its extent
    for d in (1, 2):
        ids = IDS[:d]
        for t in TREES[d][1:]:
            cov = _cover(t, d)
            for declared in (False, True):
                sh = [x + 6 for x in cov] if declared else None
                for how in (("ref", "append") if d == 1 else ("ref",)):   # appending a fiber is C02's business
                    for pt in ([cov[0] + 3] + [1] * (d - 1), [cov[0] + 3] + [cov[-1] + 2] * (d - 1)):
                        yield {"prop": PROP, "kind": "mut", "d": d, "t": t, "ids": ids, "shape": sh, "dflt": 0,
                               "how": how, "point": pt}
                if d == 2:      # an absent point inside the extent, and a wider second-rank fiber
                    yield {"prop": PROP, "kind": "mut", "d": d, "t": t, "ids": ids, "shape": sh, "dflt": 0,
                           "how": "ref", "point": [t[0][0], cov[1] + 2]}
    # tensors created EMPTY and filled in two batches, the second reaching larger coordinates, with
    # and without queries in between (an empty-created rank has no recorded estimate: it estimates anew
    # on every call, so the shape follows the data)
    fills = {1: ([[1], [3]], [[6], [9]]), 2: ([[0, 2], [1, 1]], [[1, 7], [5, 0], [5, 8]]),
             3: ([[0, 0, 1], [1, 2, 0]], [[1, 2, 6], [4, 0, 0], [4, 5, 9]])}
    for d in (1, 2, 3):
        p1, p2 = fills[d]
        for sh in (None, [12] * d):
            for q in (False, True):
                for a, b in ((p1, p2), (p1 + p2, []), ([], p1 + p2), (p1[:1], p1[1:] + p2)):
                    yield {"prop": PROP, "kind": "mut", "how": "fill", "d": d, "t": [], "ids": IDS[:d], "shape": sh,
                           "dflt": 0, "points1": a, "points2": b, "query": q}
    # lazy results
    fa = [{"c": [1, 3], "shape": 6, "act": [1, 5], "id": "A"}, {"c": [0, 2, 4], "shape": None, "act": None, "id": None},
          {"c": [2, 3], "shape": 5, "act": None, "id": "A"}, {"c": [], "shape": None, "act": None, "id": "A"},
          {"c": [1, 3], "shape": 6, "act": [1, 5], "id": "M", "owned": True},
          {"c": [0, 4], "shape": None, "act": None, "id": "M", "owned": True}]
    fb = [{"c": [3, 8], "shape": 9, "act": None, "id": "B"}, {"c": [], "shape": None, "act": None, "id": None},
          {"c": [0, 1, 3], "shape": None, "act": [0, 4], "id": "B"},
          {"c": [3, 5], "shape": 7, "act": None, "id": "N", "owned": True}]
    lops = [{"name": n} for n in ("and", "or", "xor", "sub", "populate", "prune", "intersection", "union",
                                  "coiterShape", "coiterActiveShape")]
    lops += [{"name": "coiterRangeShape", "lo": 2, "hi": 4}, {"name": "coiterRangeShape", "lo": 0, "hi": 7}]
    # the Ref variants of the dense co-iterators (they insert the missing elements while iterating)
    lops += [{"name": "coiterShapeRef"}, {"name": "coiterActiveShapeRef"},
             {"name": "coiterRangeShapeRef", "lo": 2, "hi": 4}, {"name": "coiterRangeShapeRef", "lo": 0, "hi": 7}]
    for k, m in ((1, 0), (1, 10), (2, 1), (-1, 20), (-2, 9), (3, -2)):
        for iv in (None, [2, 9]):
            for r in (None, "Q"):
                lops.append({"name": "project", "k": k, "m": m, "interval": iv, "rank_id": r})
    lops.append({"name": "intersection-lf"})
    for a in fa:
        for b in fb:
            for op in lops:
                yield {"prop": PROP, "kind": "lazy", "a": a, "b": b, "op": op}
    # format "U" on either operand (own attributes of a free fiber / Tensor.setFormat of an owned one),
    # declared and estimated extents, restricted range; non-zero / float / str defaults
    fu = [{"c": [1, 3], "shape": 6, "act": [1, 5], "id": "A", "fmt": "U"},
          {"c": [0, 2, 4], "shape": None, "act": None, "id": "A", "fmt": "U", "dflt": 7},
          {"c": [2, 3], "shape": 5, "act": [1, 4], "id": "M", "owned": True, "fmt": "U"},
          {"c": [1, 3], "shape": None, "act": None, "id": "M", "owned": True, "fmt": "U", "dflt": 0.5},
          {"c": [1, 4], "shape": 6, "act": None, "id": "A", "dflt": "e"}]
    fbu = [{"c": [3, 4], "shape": 6, "act": None, "id": "B", "fmt": "U"},
           {"c": [0, 3], "shape": None, "act": [0, 5], "id": "N", "owned": True, "fmt": "U", "dflt": 7},
           {"c": [3, 8], "shape": 9, "act": None, "id": "B", "dflt": 7}]
    for a in fu:
        for b in fbu + fb[:1]:
            for op in lops:
                if op["name"] == "project" and (op["interval"] is not None) != (op["rank_id"] is not None):
                    continue
                yield {"prop": PROP, "kind": "lazy", "a": a, "b": b, "op": op}
    # a LAZY fiber as first operand (result of an earlier &, -, prune, project, |)
    for pre in ("and", "sub", "prune", "project", "or"):
        for a in fa[:3] + fu[:2]:
            for b in fb[:1] + fb[2:3] + fbu[:1]:
                for op in lops:
                    if op["name"] == "populate" or op["name"].startswith("coiter"):
                        continue        # these need an eager first operand
                    if op["name"] == "project" and (op["k"] < 0 or op["interval"] is not None):
                        continue        # a lazy fiber cannot be reversed
                    yield {"prop": PROP, "kind": "lazy", "a": a, "b": b, "op": op, "a_pre": pre}
    # constructors from nests that are ragged ACROSS parents (sibling lists have equal length, cousin
    # lists differ): the reported shape is the per-level maximum
    ragged = [
        [[[1, 0], [0, 2]], [[0, 3, 0, 4], [5, 0, 0, 6]]],
        [[[0, 0, 7]], [[1, 2, 3, 4, 5]], [[0, 1]]],
        [[[1, 2], [3, 4]], [[5], [6]], [[0, 0, 0], [0, 0, 9]]],
        [[[[1], [2]], [[3], [0]]], [[[0, 4, 5], [6, 0, 0]], [[7, 0, 8], [0, 0, 9]]]],
        [[[[1, 2]], [[3, 0]]], [[[0, 0, 0, 3]], [[4, 0, 0, 0]]]],
        [[1, 0, 2], [0, 0, 3]],
    ]

    def _dims(n):
        out = []
        lv = [n]
        while lv and isinstance(lv[0], list):
            out.append(max(len(x) for x in lv))
            nxt = [y for x in lv for y in x]
            lv = nxt if nxt and isinstance(nxt[0], list) else []
        return out

    for nest in ragged:
        dims = _dims(nest)
        dd = len(dims)
        for dflt in (0, 7):
            for shape in (None, [x + 1 for x in dims]):
                yield {"prop": PROP, "kind": "ctor", "how": "fromUncompressed", "d": dd, "t": [], "nest": nest,
                       "ids": (IDS + ["H"])[:dd], "shape": shape, "dims": dims, "dflt": dflt}
    # joins
    owns = [{"id": None, "shape": None, "dflt": None, "fmt": None},
            {"id": "Z", "shape": 9, "dflt": 7, "fmt": "U"},
            {"id": None, "shape": 2, "dflt": None, "fmt": None},
            {"id": "Y", "shape": None, "dflt": 3, "fmt": "U"}]
    for d in (1, 2):
        ids = IDS[:d]
        for t in TREES[d]:
            for olist in itertools.product(owns, repeat=d):
                for shape in (None, [6, 7][:d]):
                    for dflt in (0, 7):
                        for via in ("fromFiber", "setRoot"):
                            yield {"prop": PROP, "kind": "join", "d": d, "t": t, "ids": ids, "shape": shape,
                                   "dflt": dflt, "via": via, "own": list(olist)}


def _random(seed, tier):
    rng = random.Random(seed)
    n = 1500 if tier == "quick" else 120000
    for i in range(n):
        d = rng.choice([1, 2, 2, 3, 3, 4])
        ids = IDS[:d]
        if rng.random() < 0.5:
            ids = rng.sample(IDS, d)
        dflt = rng.choice([0, 0, 7])
        nn = rng.choice([3, 4, 6])
        t = H.gen_tree(rng, d, nn, (1, 2, -3, 7, 0), dflt)
        declared = rng.random() < 0.5
        shape = [max(1, x - 1 + rng.choice([0, 1, 3])) for x in _cover(t, d)] if declared else None
        r = rng.random()
        if r < 0.1:
            yield {"prop": PROP, "kind": "ctor", "how": "fromFiber", "d": d, "t": t, "ids": ids, "shape": shape,
                   "dflt": dflt}
            continue
        fmts = [rng.choice("CCU") for _ in range(d)]
        mut = rng.random() < 0.5
        if r < 0.18 and d <= 3:
            k = rng.randrange(d)
            sp = {"name": "split", "kind": rng.choice(["uniform", "equal"]), "step": rng.randint(1, nn), "k": k,
                  "depthkw": True}
            new_ids = ids[:k] + [ids[k] + ".1", ids[k] + ".0"] + ids[k + 1:]
            yield _xf(d, t, ids, shape, dflt, None, mut, {"name": "swizzle", "order": rng.sample(new_ids, d + 1)}, [sp])
            continue
        if r < 0.25 and d >= 2:
            pre, op, nr = rng.choice(_unflatten_cases(d, ids))
            yield _xf(d, t, ids, shape, dflt, [rng.choice("CCU") for _ in range(nr)], mut, op, pre)
            continue
        ops = _ops_for(d, ids) if d <= 3 else None
        if ops is None:
            kind = rng.choice(["swizzle", "swap", "merge", "flatten", "split", "upd"])
            if kind == "swizzle":
                op = {"name": "swizzle", "order": rng.sample(ids, d)}
            elif kind == "swap":
                op = {"name": "swap", "k": rng.randrange(d - 1)}
            elif kind in ("merge", "flatten"):
                k = rng.randrange(d - 1)
                op = {"name": kind, "k": k, "levels": rng.randint(1, d - 1 - k),
                      "style": rng.choice(STYLES if kind == "merge" else ["tuple", "pair", "linear"])}
            elif kind == "split":
                op = rng.choice(_split_ops(d, nn))
            else:
                op = {"name": rng.choice(["updc", "updp"]), "k": rng.randrange(d), "delta": 1}
        else:
            op = dict(rng.choice(ops))
        if op["name"] == "split":
            op = dict(op)
            if op["kind"] in ("uniform", "equal"):
                op["step"] = rng.randint(1, nn + 1)
            elif op["kind"] == "nonuniform":
                op["splits"] = sorted(rng.sample(range(0, nn + 1), rng.randint(1, 3)))
            elif op["kind"] == "unequal":
                op["sizes"] = [rng.randint(1, 3) for _ in range(rng.randint(1, 3))]
            elif op["kind"] in ("truediv", "floordiv"):
                op["n"] = rng.randint(1, 4)
        if op["name"] == "updc" and declared:
            # keep the moved coordinates inside the declared shape (the caller's obligation)
            shape = [s + 1 for s in shape]
        c = _xf(d, t, ids, shape, dflt, fmts, mut, op)
        r2 = rng.random()
        if r2 < 0.15:
            c["fdflt"] = rng.choice([0, 7, 3])
        elif r2 < 0.25:
            c["dflt"] = rng.choice([0.5, 7.0, "e", None, ""])
        yield c


def gen(seed, tier):
    yield from _small_scope(tier)
    yield from _random(seed, tier)


# ---------------------------------------------------------------------------------------
# classification
# ---------------------------------------------------------------------------------------

def nontrivial(case, verdict):
    t = set(verdict.get("tags", []))
    return "nontrivial" in t


def _why(verdict):
    w = verdict.get("why", "")
    return set(x for x in w.split(",") if x)


CLASSES = [  # priority order: a failing case is filed under the first class that explains one of its clauses
    "split:unaligned-range:upper-outside-active",
    "merge:absolute:active-range-of-upper-rank", "merge:relative:shape-and-active-range-of-upper-rank",
    "flatten:estimated:shape-from-last-tuple-coordinate", "lazy:project:rank-id-unknown",
    "mutate:estimated-shape-stale-after-growth"]


def explain(case, tags, clause):
    """the known class (DESIGN §7 / known_findings.json) that explains one failing clause of the
    specification in the context of this case, or None"""
    kind = case["kind"]
    if kind == "lazy":
        op = case["op"]
        if op["name"] == "project" and clause == "id" and op.get("rank_id") is None:
            return "lazy:project:rank-id-unknown"
        return None
    if kind == "mut":
        # only ranks that RECORDED an estimate when the tensor was built keep it (the known class);
        # a rank without recorded estimate (tensor created empty) re-estimates on every query
        if "src-est" in tags and clause.startswith(("shape@", "active@")) and \
                ("recorded-estimate@" + clause.split("@")[1]) in tags:
            return "mutate:estimated-shape-stale-after-growth"
        return None
    if kind != "xf":
        return None
    op = case["op"]
    name = op["name"]
    k = op.get("k", 0)
    if name == "split":
        if clause == f"active@{k}" and "src-explicit-range" in tags:
            return "split:unaligned-range:upper-outside-active"
    if name in ("merge", "flatten"):
        st = op["style"]
        if st == "absolute" and clause == f"active@{k}":
            return "merge:absolute:active-range-of-upper-rank"
        if st == "relative" and clause in (f"active@{k}", f"shape@{k}"):
            return "merge:relative:shape-and-active-range-of-upper-rank"
        if st in ("tuple", "pair") and clause == f"shape@{k}" and "src-est" in tags:
            return "flatten:estimated:shape-from-last-tuple-coordinate"
    return None


def signature(case, verdict, failed):
    """classification of a failing case for known_findings.json.  A known class is returned only if
    the implementation did exactly what the model of today's code predicts (agree), nothing but the
    specification failed, and *every* failing clause is explained by a known class in the context of
    the case; otherwise the generic signature lists all failing clauses."""
    kind = case["kind"]
    why = _why(verdict)
    tags = set(verdict.get("tags", []))
    name = case["op"]["name"] if kind in ("xf", "lazy") else case.get("how", case.get("via", ""))
    if kind == "mut":
        name = "grow-" + case["how"]
    generic = f"{kind}:{name}:{'+'.join(sorted(why)) or '/'.join(sorted(failed))}"
    if failed != ["spec"] or not verdict.get("agree") or not why:
        return generic
    cls = [explain(case, tags, w) for w in why]
    if any(c is None for c in cls):
        return generic
    return min(cls, key=CLASSES.index)


def shrink_candidates(case):
    if case["kind"] not in ("xf", "ctor"):
        return

    def tree_shrinks(t):
        if not isinstance(t, list):
            return
        for i in range(len(t)):
            yield t[:i] + t[i + 1:]
        for i, e in enumerate(t):
            c, sub = e
            if isinstance(sub, list):
                for s2 in tree_shrinks(sub):
                    yield t[:i] + [[c, s2]] + t[i + 1:]
    for t2 in tree_shrinks(case["t"]):
        c = dict(case)
        c["t"] = t2
        yield c
    if case["kind"] == "xf":
        if case.get("fmts") and any(f == "U" for f in case["fmts"]):
            for i, f in enumerate(case["fmts"]):
                if f == "U":
                    c = dict(case)
                    c["fmts"] = case["fmts"][:i] + ["C"] + case["fmts"][i + 1:]
                    yield c
        if case.get("mut"):
            c = dict(case)
            c["mut"] = False
            yield c
        if case.get("dflt"):
            c = dict(case)
            c["dflt"] = 0
            yield c
