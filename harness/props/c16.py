"""C16 — traces are well-formed: one sorted, correctly addressed row per traced event.

Two case families:
  op="kernel": a perfect loop nest of depth 1-3 (per level: source = fiber | a & b | leader-follower
               intersection | projection, optionally wrapped in `z << ...`), operand trees, the set of
               declared traces, flush thresholds.  The real nest is executed once per threshold (file
               traces) and once with consumable traces; the CSV files / consumeTrace lists are the
               observation.
  op="api":    a sequence of Metrics calls (trace / matchRanks / registerRank / addUse / incIter /
               endIter / consumeTrace / endCollect) replayed on the real class at several thresholds.
"""
import os, random, itertools, shutil, tempfile, glob, json
from harness import common as H

PROP = "C16"
RULE = ("kernel cases = (loop nest of depth 1-3: per level a source {fiber, a&b, leader-follower, projection} "
        "optionally under z<<, operand trees A B Z with explicit defaults / empty sub-fibers / empty operands / "
        "pre-populated outputs, declared trace set, thresholds subset of {2,3,5,1000}, default 0 or 7); small scope: "
        "every depth-1 form x all pairs of leaf fibers over 2 (quick) / 3 (thorough) coordinates x {absent, explicit "
        "default, value} x 4 trace sets, depth-2/3 templates (SpMV, reductions, Gustavson, inner/outer product, "
        "copy, dense iterShapeRef() outer loops, a union next to labelled operators: (a | b) & (a & b), plain and under z <<) on seeded random trees, populate destination ranks in format C or U, input ranks of format U (declared / estimated extents, tensor-owned and unowned fibers), multi-digit coordinates, float values and defaults, stale trace files of the previous session, a non-ticking walk of lazy unions of all operand fibers before the nest in every other case, loop ranks with flattened 2-tuple coordinates (associateShape), lazy operands built before beginCollect in every other case, a lazy fiber built inside and iterated after the collection; api cases = seeded random Metrics call sequences (nest-shaped with "
        "perturbations: late/duplicate declarations, double matches, uses on unregistered ranks, interleaved "
        "consumeTrace). non-trivial = a traced file with >= 2 data rows (kernel) / a flush or a consume happened (api)")

THRESHOLDS = [2, 3, 5, 1000]
_scratch = None


def scratch():
    global _scratch
    if _scratch is None or not os.path.isdir(_scratch):
        base = os.environ.get("VERIF_SCRATCH") or tempfile.gettempdir()
        os.makedirs(base, exist_ok=True)
        _scratch = tempfile.mkdtemp(prefix=f"c16-{os.getpid()}-", dir=base)
        import atexit
        atexit.register(lambda d=_scratch: shutil.rmtree(d, ignore_errors=True))
    return _scratch


# ---------------------------------------------------------------------------------------
# kernel cases
# ---------------------------------------------------------------------------------------

def _src(kind, x, y=None, **kw):
    d = {"kind": kind, "x": x}
    if y is not None:
        d["y"] = y
    d.update(kw)
    return d


def _level(rank, src, pop=False, tuple_k=None):
    lv = {"rank": rank, "src": src, "pop": pop}
    if tuple_k:
        lv["tuple"] = tuple_k      # the rank holds flattened 2-tuples (c // k, c % k), announced by associateShape
    return lv


def op_levels(levels, x):
    """indices of the levels operand x takes part in"""
    out = []
    for i, lv in enumerate(levels):
        s = lv["src"]
        if s["x"] == x or s.get("y") == x:
            out.append(i)
    return out


def op_rank_ids(levels, x):
    ids = []
    for i in op_levels(levels, x):
        s = levels[i]["src"]
        ids.append(s["srcRank"] if s["kind"] == "proj" else levels[i]["rank"])
    return ids


def z_levels(levels):
    return [i for i, lv in enumerate(levels) if lv["pop"]]


def candidate_keys(levels):
    keys = []
    for lv in levels:
        r = lv["rank"]
        keys.append([r, "iter"])
        for i in range(8):
            keys.append([r, f"intersect_{i}"])
        keys += [[r, "populate_1"], [r, "populate_read_0"], [r, "populate_write_0"]]
        if lv["src"]["kind"] == "proj":
            sr = lv["src"]["srcRank"]
            keys += [[sr, "project_0"], [sr, "project_2"]]
    return keys


def relevant_keys(levels):
    """the keys the nest can actually write to"""
    keys = []
    for lv in levels:
        r, s = lv["rank"], lv["src"]
        keys.append([r, "iter"])
        l0 = 2 if lv["pop"] else 0
        if lv["pop"]:
            keys += [[r, "populate_1"], [r, "populate_read_0"], [r, "populate_write_0"]]
        if s["kind"] in ("and", "lf"):
            keys += [[r, f"intersect_{l0}"], [r, f"intersect_{l0 + 1}"]]
        if s["kind"] == "orand":
            keys += [[r, f"intersect_{l0 + i}"] for i in (0, 1, 2, 3, 4, 5)]
        if s["kind"] == "proj":
            keys.append([s["srcRank"], f"project_{0 if s.get('own') else l0}"])
    return keys


TRACE_SETS = ["all", "no-write", "no-read", "iter-only"]


def pick_traced(levels, mode):
    keys = relevant_keys(levels)
    if mode == "all":
        return keys
    if mode == "no-write":
        return [k for k in keys if k[1] != "populate_write_0"]
    if mode == "no-read":
        return [k for k in keys if k[1] != "populate_read_0"]
    if mode == "iter-only":
        return [k for k in keys if k[1] == "iter"]
    raise ValueError(mode)


def finish_case(levels, ops, z, traced, thresholds, dflt=0, prematch=True):
    """fill derived fields: insertPos per populate level, config-phase matches"""
    zl = z_levels(levels)
    if zl:
        for n, i in enumerate(zl):
            levels[i]["insertPos"] = z["shape"][n]
    matches = []
    for lv in levels:
        s = lv["src"]
        if s["kind"] == "proj":
            # project_iterator calls matchRanks itself; whether or not the kernel also declares the match
            # before the nest (prematch), it takes effect before the first use of the source rank
            matches.append([s["srcRank"], lv["rank"]])
            s["own"] = False
    # lazy operands (a & b, projections, z << ...) are built before beginCollect() in every other case
    early = (len(json.dumps([levels, ops, z])) % 2) == 0
    # in every other case the kernel first sizes its buffers: it walks lazy unions of the operands' fibers
    # of every rank WITHOUT ticking, inside the collection bracket, before the nest (fiber labels are drawn
    # for ranks that are not part of the loop order yet)
    prelude = (len(json.dumps([levels, ops, z])) // 2 % 2) == 0
    return {"prop": PROP, "op": "kernel", "dflt": dflt, "levels": levels, "ops": ops, "z": z,
            "traced": traced, "matches": matches, "prematch": bool(prematch), "thresholds": thresholds,
            "early": early, "prelude": prelude}


def _mk_ops(levels, trees):
    """operand records {d, tree}; an unused operand is the constant 1"""
    ops = []
    for x in (0, 1):
        d = len(op_levels(levels, x))
        ops.append({"d": d, "tree": trees[x] if d > 0 else 1})
    return ops


DEPTH1_FORMS = [
    ("iter", lambda: [_level("K", _src("fiber", 0))]),
    ("and", lambda: [_level("K", _src("and", 0, 1))]),
    ("lf", lambda: [_level("K", _src("lf", 0, 1))]),
    ("pop", lambda: [_level("K", _src("fiber", 0), True)]),
    ("pop-and", lambda: [_level("K", _src("and", 0, 1), True)]),
    ("pop-lf", lambda: [_level("K", _src("lf", 0, 1), True)]),
    ("orand", lambda: [_level("K", _src("orand", 0, 1))]),
    ("pop-orand", lambda: [_level("K", _src("orand", 0, 1), True)]),
    ("proj", lambda: [_level("W", _src("proj", 0, srcRank="K", off=2, lo=None, hi=None))]),
    ("proj-int", lambda: [_level("W", _src("proj", 0, srcRank="K", off=1, lo=2, hi=3))]),
    ("pop-proj", lambda: [_level("W", _src("proj", 0, srcRank="K", off=2, lo=None, hi=None), True)]),
]

TEMPLATES = {
    # name: levels
    "traverse2": lambda: [_level("M", _src("fiber", 0)), _level("K", _src("fiber", 0))],
    "spmv": lambda: [_level("M", _src("fiber", 0)), _level("K", _src("and", 0, 1))],
    "reduce": lambda: [_level("M", _src("fiber", 0), True), _level("K", _src("and", 0, 1))],
    "copy2": lambda: [_level("M", _src("fiber", 0), True), _level("K", _src("fiber", 0), True)],
    "elemwise2": lambda: [_level("M", _src("and", 0, 1), True), _level("K", _src("and", 0, 1), True)],
    "scatter": lambda: [_level("K", _src("and", 0, 1)), _level("M", _src("fiber", 0), True)],
    "lf-spmv": lambda: [_level("M", _src("fiber", 0)), _level("K", _src("lf", 0, 1))],
    "proj-inner": lambda: [_level("M", _src("fiber", 0)), _level("W", _src("proj", 1, srcRank="Q", off=1, lo=None, hi=None))],
    "proj-inner-pop": lambda: [_level("M", _src("fiber", 0)), _level("W", _src("proj", 1, srcRank="Q", off=1, lo=1, hi=4), True)],
    "gustavson": lambda: [_level("M", _src("fiber", 0), True), _level("K", _src("and", 0, 1)), _level("N", _src("fiber", 1), True)],
    "inner": lambda: [_level("M", _src("fiber", 0), True), _level("N", _src("fiber", 1), True), _level("K", _src("and", 0, 1))],
    "outer": lambda: [_level("K", _src("and", 0, 1)), _level("M", _src("fiber", 0), True), _level("N", _src("fiber", 1), True)],
    "stage0": lambda: [_level("M", _src("fiber", 0), True), _level("K", _src("and", 0, 1), True), _level("N", _src("fiber", 1), True)],
    "traverse3": lambda: [_level("M", _src("fiber", 0)), _level("K", _src("fiber", 0)), _level("N", _src("fiber", 0))],
    "dense-outer": lambda: [_level("M", _src("dense", 0, shape=0)), _level("K", _src("fiber", 0))],
    "dense-outer-and": lambda: [_level("M", _src("dense", 0, shape=0)), _level("K", _src("and", 0, 1))],
    "dense-outer-pop": lambda: [_level("M", _src("dense", 0, shape=0)), _level("K", _src("fiber", 0), True)],
    "dense3": lambda: [_level("M", _src("dense", 0, shape=0)), _level("K", _src("dense", 0, shape=0)), _level("N", _src("fiber", 0))],
    "flat-outer": lambda: [_level("M", _src("fiber", 0), tuple_k=2), _level("K", _src("fiber", 0))],
    "flat-outer-and": lambda: [_level("M", _src("and", 0, 1), tuple_k=3), _level("K", _src("fiber", 0))],
    "flat-outer3": lambda: [_level("M", _src("fiber", 0), tuple_k=2), _level("K", _src("and", 0, 1), tuple_k=2), _level("N", _src("fiber", 1), True)],
    "u-outer": lambda: [_level("M", _src("fiber", 0)), _level("K", _src("fiber", 0))],
    "u-outer-and": lambda: [_level("M", _src("fiber", 0)), _level("K", _src("and", 0, 1))],
    "orand-inner": lambda: [_level("M", _src("fiber", 0)), _level("K", _src("orand", 0, 1))],
    "orand-pop3": lambda: [_level("M", _src("fiber", 0), True), _level("K", _src("orand", 0, 1)), _level("N", _src("fiber", 1), True)],
    "lf3": lambda: [_level("M", _src("fiber", 0)), _level("K", _src("lf", 0, 1)), _level("N", _src("fiber", 1), True)],
}


def _max_coord_at(tree, depth, at):
    """largest coordinate stored at rank `at` (0 = top) of a tree of `depth` ranks, None if there is none"""
    if at == 0:
        return max((c for c, _ in tree), default=None)
    best = None
    if depth > 1:
        for _, sub in tree:
            m = _max_coord_at(sub, depth - 1, at - 1)
            if m is not None and (best is None or m > best):
                best = m
    return best


def _scale_tree(tree, depth, s):
    if depth == 1:
        return [[c * s, v] for c, v in tree]
    return [[c * s, _scale_tree(sub, depth - 1, s)] for c, sub in tree]


def add_u_ranks(rng, levels, ops, n, p=0.12):
    """mark input operand ranks as format "U" (walked densely over the rank's extent: declared shape, or
    estimated = largest stored coordinate of the rank + 1); records [operand, extent] in lv["uOps"]"""
    for i, lv in enumerate(levels):
        s = lv["src"]
        if s["kind"] == "dense" or "tuple" in lv or (s["kind"] == "proj" and not lv["pop"]):
            continue        # (a plain loop over a projection of a format-"U" rank is not modelled)
        for x in sorted({s["x"]} | ({s["y"]} if "y" in s else set())):
            o = ops[x]
            if o["d"] == 0 or rng.random() >= p:
                continue
            if "shape" not in o and rng.random() < 0.5:
                o["shape"] = [n + rng.choice([0, 2])] * o["d"]      # declared, possibly larger than needed
            lv.setdefault("u", []).append(x)


def fill_extents(case):
    """lv["uOps"] = [[operand, extent]] for the format-"U" ranks listed in lv["u"]: the declared shape, or the
    estimate (largest coordinate stored in the rank + 1); a rank that stores nothing has no estimate and
    stays compressed.  A function of the case, so that shrunk cases stay consistent."""
    levels, ops = case["levels"], case["ops"]
    for i, lv in enumerate(levels):
        lv.pop("uOps", None)
        for x in lv.get("u", []):
            o = ops[x]
            if o["d"] == 0:
                continue
            at = op_levels(levels, x).index(i)
            if "shape" in o:
                ext = o["shape"][at]
            else:
                m = _max_coord_at(o["tree"], o["d"], at)
                if m is None:
                    continue
                ext = m + 1
            lv.setdefault("uOps", []).append([x, ext])


def _rand_case(rng, levels, n, dflt, tmode=None, zmode=None, prematch=True, thresholds=None):
    pool = (1, 2, -3, 7, 0)
    trees = []
    for x in (0, 1):
        d = len(op_levels(levels, x))
        if d == 0:
            trees.append(None)
        elif rng.random() < 0.06:
            trees.append([])
        else:
            trees.append(H.gen_tree(rng, d, n, pool, dflt, p_absent=rng.choice([0.2, 0.4, 0.6])))
    ops = _mk_ops(levels, trees)
    for lv in levels:
        if lv["src"]["kind"] == "dense":
            lv["src"]["shape"] = n            # dense Ref loops walk the declared shape of the operand's rank
            ops[lv["src"]["x"]]["shape"] = [n] * ops[lv["src"]["x"]]["d"]
    zl = z_levels(levels)
    z = None
    for i in zl:
        if rng.random() < 0.3:
            levels[i]["zU"] = True           # destination rank kept in format "U": never an inserting populate
    if zl:
        dz = len(zl)
        # declared shape: beyond every coordinate the nest can offer (projection offsets included)
        shape = [n + 4] * dz
        zmode = zmode or rng.choice(["empty", "empty", "random", "sparse"])
        if zmode == "empty":
            zt = []
        elif zmode == "sparse":
            zt = H.gen_tree(rng, dz, n + 3, pool, dflt, p_absent=0.7)
        else:
            zt = H.gen_tree(rng, dz, n + 3, pool, dflt)
        z = {"d": dz, "tree": zt, "shape": shape}
    for lv in levels:
        if (not lv["pop"] and lv["src"]["kind"] in ("fiber", "and", "lf", "orand") and "tuple" not in lv
                and rng.random() < 0.15):
            lv["tuple"] = rng.choice([2, 3])
    add_u_ranks(rng, levels, ops, n)
    for o in ops:
        if o["d"] == 1 and rng.random() < 0.3:
            o["free"] = True              # an unowned fiber carrying its own rank attributes (id, format, shape)
    plain = all(lv["src"]["kind"] in ("fiber", "and", "lf", "orand") and "tuple" not in lv and "u" not in lv
                for lv in levels) and not any("shape" in o for o in ops)
    if plain and rng.random() < 0.25:
        # multi-digit coordinates (9 / 10 / 100 boundaries)
        sc = rng.choice([9, 37])
        for o in ops:
            if o["d"] > 0:
                o["tree"] = _scale_tree(o["tree"], o["d"], sc)
        if z is not None:
            z["tree"] = _scale_tree(z["tree"], z["d"], sc)
            z["shape"] = [v * sc for v in z["shape"]]
    vscale = None
    if z is None and rng.random() < 0.3:
        vscale = 0.5                      # float values and a float default (v * 0.5), equality with the default kept
    tmode = tmode or rng.choice(TRACE_SETS + ["all", "random", "random"])
    if tmode == "random":
        cand = candidate_keys(levels)
        traced = [k for k in cand if rng.random() < 0.5]
        if rng.random() < 0.1:
            traced.append(["X", "iter"])      # a rank that is never registered (zero-byte file)
    else:
        traced = pick_traced(levels, tmode)
    if thresholds is None:
        thresholds = sorted(set([rng.choice([2, 3, 4, 5, 7]), rng.choice([2, 3, 5, 1000]), 1000]))
    case = finish_case(levels, ops, z, traced, thresholds, dflt, prematch)
    if vscale:
        case["vscale"] = vscale
    return case


def gen_kernels(seed, tier):
    rng = random.Random(seed * 7919 + 16)
    # ---- small scope: every depth-1 form on all pairs of small leaf fibers
    n = 2 if tier == "quick" else 3
    fibs = list(H.all_leaf_fibers(n, [0, 3]))
    k = 0
    for name, mk in DEPTH1_FORMS:
        two = mk()[0]["src"]["kind"] in ("and", "lf", "orand")
        pop = mk()[0]["pop"]
        for a in fibs:
            for b in (fibs if two else [None]):
                zs = [[]] + ([[[0, 5]], [[1, 5], [3, 6]], [[0, 0], [2, 4]]] if pop else [])
                if not pop:
                    zs = [None]
                for zt in zs:
                    for tmode in TRACE_SETS if pop else ["all"]:
                        k += 1
                        if tier == "quick" and name in ("orand", "pop-orand", "pop-lf", "pop-and") and k % 2:
                            continue
                        levels = mk()
                        ops = _mk_ops(levels, [a, b])
                        z = {"d": 1, "tree": zt, "shape": [n + 4]} if pop else None
                        yield finish_case(levels, ops, z, pick_traced(levels, tmode),
                                          [2, 3, 1000] if k % 2 else [2, 5, 1000], 0, prematch=True)
                    if pop and zt:
                        # the same populate into a destination rank of format "U" (never inserting)
                        levels = mk()
                        levels[0]["zU"] = True
                        yield finish_case(levels, _mk_ops(levels, [a, b]), {"d": 1, "tree": zt, "shape": [n + 4]},
                                          pick_traced(levels, "all"), [2, 1000], 0, prematch=True)
    # ---- format "U" input ranks (estimated and declared extents) on every depth-1 form that admits them
    for name, mk in DEPTH1_FORMS:
        lv0 = mk()[0]
        if lv0["src"]["kind"] in ("dense",) or (lv0["src"]["kind"] == "proj" and not lv0["pop"]):
            continue
        two = lv0["src"]["kind"] in ("and", "lf", "orand")
        for a in fibs:
            for b in (fibs if two else [None]):
                for us in ([[0], [1], [0, 1]] if two else [[0]]):
                    for decl in (False, True):
                        k += 1
                        if tier == "quick" and two and k % 3:
                            continue
                        levels = mk()
                        levels[0]["u"] = us
                        ops = _mk_ops(levels, [a, b])
                        if decl:
                            for x in us:
                                ops[x]["shape"] = [n + 1]
                        z = {"d": 1, "tree": [[1, 5]] if k % 3 == 0 else [], "shape": [n + 5]} if lv0["pop"] else None
                        yield finish_case(levels, ops, z, pick_traced(levels, "all"), [2, 1000], 0, prematch=True)
    # ---- the late-match composite projection (expected to assert when its trace is declared)
    for a in fibs[:6]:
        levels = dict(DEPTH1_FORMS)["pop-proj"]()
        yield finish_case(levels, _mk_ops(levels, [a, None]), {"d": 1, "tree": [], "shape": [n + 4]},
                          pick_traced(levels, "all") + [["K", "project_0"]], [2, 1000], 0, prematch=False)
        levels = dict(DEPTH1_FORMS)["pop-proj"]()
        yield finish_case(levels, _mk_ops(levels, [a, None]), {"d": 1, "tree": [], "shape": [n + 4]},
                          [["W", "iter"], ["W", "populate_1"]], [2, 1000], 0, prematch=False)
    # ---- templates and random nests on random trees
    nrand = 2400 if tier == "quick" else 60000
    names = sorted(TEMPLATES)
    for i in range(nrand):
        dflt = rng.choice([0, 0, 0, 7])
        nn = rng.choice([2, 3, 3, 4, 5]) if tier == "quick" else rng.choice([2, 3, 4, 5, 6, 8])
        name = None
        if i % 3 != 2:
            name = names[(i // 3 * 2 + i % 3) % len(names)]
            levels = TEMPLATES[name]()
        else:
            levels = random_levels(rng)
        th = None if tier == "quick" else sorted(set(rng.sample(THRESHOLDS, 3) + [1000]))
        case = _rand_case(rng, levels, nn, dflt, thresholds=th)
        if name in ("u-outer", "u-outer-and") and "tuple" not in case["levels"][0]:
            case["levels"][0]["u"] = [0]          # the outer rank in format "U"
        yield case


def random_levels(rng):
    """a random perfect nest: each level gets 1-2 input operands, optional output"""
    D = rng.choice([1, 2, 2, 3, 3])
    ranks = ["M", "K", "N"][:D]
    while True:
        part = {x: [rng.random() < 0.65 for _ in range(D)] for x in (0, 1)}
        if all(part[0][i] or part[1][i] for i in range(D)):
            break
    zpart = [rng.random() < 0.5 for _ in range(D)]
    levels = []
    for i in range(D):
        xs = [x for x in (0, 1) if part[x][i]]
        if len(xs) == 2:
            kind = rng.choice(["and", "and", "lf", "orand"])
            if rng.random() < 0.5:
                xs = xs[::-1]
            src = _src(kind, xs[0], xs[1])
        elif rng.random() < 0.2:
            lo = rng.choice([None, 1, 2])
            src = _src("proj", xs[0], srcRank="QP"[xs[0]] + str(i), off=rng.choice([0, 1, 2]),
                       lo=lo, hi=(None if lo is None else lo + rng.choice([1, 2, 4])))
        elif i + 1 < D and not zpart[i] and rng.random() < 0.25:
            src = _src("dense", xs[0], shape=0)
        else:
            src = _src("fiber", xs[0])
        levels.append(_level(ranks[i], src, zpart[i]))
    return levels


# ---------------------------------------------------------------------------------------
# api cases
# ---------------------------------------------------------------------------------------

RANKS = ["M", "K", "N", "Q"]
TYPES = ["iter", "t1"]


def gen_api(seed, tier):
    rng = random.Random(seed * 104729 + 61)
    n = 1800 if tier == "quick" else 40000
    for _ in range(n):
        evs = []
        ranks = RANKS[:rng.choice([1, 2, 3])]
        keys = []
        for r in ranks + (["Q"] if rng.random() < 0.4 else []):
            for t in TYPES:
                u = rng.random()
                if u < 0.45:
                    evs.append(["trace", r, t, False]); keys.append([r, t])
                elif u < 0.6:
                    evs.append(["trace", r, t, True]); keys.append([r, t])
                elif u < 0.75:
                    a, b = ["trace", r, t, False], ["trace", r, t, True]
                    evs += [a, b] if rng.random() < 0.5 else [b, a]
                    keys.append([r, t])
        for k in keys:
            if ["trace", k[0], k[1], True] in evs and rng.random() < 0.4:
                evs.append(["consume", k[0], k[1]])       # a poll before anything was traced
        if rng.random() < 0.4:
            evs.append(["match", "Q", rng.choice(ranks)])
        if rng.random() < 0.1:
            evs.append(["match", "Q", rng.choice(ranks)])     # possibly a second, different match

        def loop(i):
            r = ranks[i]
            evs.append(["reg", r])
            for it in range(rng.choice([0, 1, 2, 3])):
                for _u in range(rng.choice([0, 1, 1, 2])):
                    who = r if rng.random() < 0.85 else rng.choice(RANKS)
                    ovr = None
                    if rng.random() < 0.15:
                        ovr = [rng.randrange(5) for _ in range(rng.choice([i + 1, i + 1, len(ranks), 1]))]
                    evs.append(["use", who, rng.randrange(9), rng.randrange(6), rng.choice(TYPES + ["zz"]), ovr])
                if i + 1 < len(ranks) and rng.random() < 0.8:
                    loop(i + 1)
                if rng.random() < 0.9:
                    evs.append(["inc", r])
                if keys and rng.random() < 0.15:
                    k = rng.choice(keys)
                    evs.append(["consume", k[0], k[1]])
                    if rng.random() < 0.3:
                        evs.append(["consume", k[0], k[1]])   # polled again at once: nothing pending
            if rng.random() < 0.9:
                evs.append(["end", r])

        loop(0)
        if rng.random() < 0.2 and not any(e[0] == "match" for e in evs):
            # a match declared after some rank has been registered (takes effect at once).  Only as the sole
            # match of the session: a rank matched, directly or through others, with SEVERAL registered ranks
            # is given the one Metrics.matchRanks meets first in a Python set (hash order) — not a function of
            # the calls, so it is not generated (lean/obligations/C16.json, not_modelled)
            evs.insert(rng.randrange(len(evs) + 1), ["match", "Q", rng.choice(ranks)])
        u = rng.random()
        if u < 0.08 and keys:        # late (re)declaration
            k = rng.choice(keys)
            evs.insert(rng.randrange(len(evs)), ["trace", k[0], k[1], rng.random() < 0.5])
        for k in keys:
            if ["trace", k[0], k[1], True] in evs and rng.random() < 0.9:
                evs.append(["consume", k[0], k[1]])
        if rng.random() < 0.8:
            evs.append(["endCollect"])
        allkeys = [[r, t] for r in RANKS for t in TYPES + ["zz"]]
        yield {"prop": PROP, "op": "api", "evs": evs, "keys": allkeys,
               "thresholds": [2, rng.choice([3, 4, 5]), 1000]}


def gen(seed, tier):
    yield from gen_kernels(seed, tier)
    yield from gen_api(seed, tier)


# ---------------------------------------------------------------------------------------
# running the real code
# ---------------------------------------------------------------------------------------

def _parse_csv(path):
    out = []
    with open(path) as f:
        for ln in f.read().splitlines():
            parts = ln.split(",")
            try:
                out.append([int(p) for p in parts])
            except ValueError:
                out.append(parts)
    return out


def _mem_lines(lines):
    out = []
    for ln in lines:
        if all(isinstance(v, int) and not isinstance(v, bool) for v in ln):
            out.append(list(ln))
        else:
            out.append([str(v) for v in ln])
    return out


def _kstr(k):
    return k[0] + "|" + k[1]


def _force_end(ft):
    M = ft.Metrics
    try:
        if M.isCollecting():
            M.endCollect()
    except BaseException:
        pass
    M.collecting = False
    M.traces = {}
    M.iteration = None
    M.line_order = None
    M.loop_order = None
    M.point = None
    M.prefix = None
    M.num_cached_uses = 1000


def _build_fiber_t(ft, tree, depth, dflt, ks, vs=None):
    """like H.build_fiber, but ranks with ks[i] = k hold the 2-tuple (c // k, c % k) instead of c, and leaf
    values / the default are multiplied by vs (floats)"""
    k = ks[0]
    coords = [((c // k, c % k) if k else c) for c, _ in tree]
    d = dflt * vs if vs else dflt
    if depth == 1:
        return ft.Fiber(coords, [(v * vs if vs else v) for _, v in tree], default=d)
    return ft.Fiber(coords, [_build_fiber_t(ft, sub, depth - 1, dflt, ks[1:], vs) for _, sub in tree], default=d)


def _build_tensor(ft, ids, tree, dflt, shape=None, ks=None, vs=None):
    if (ks and any(ks)) or vs:
        ks = ks or [None] * len(ids)
        fiber = _build_fiber_t(ft, tree, len(ids), dflt, ks, vs)
        if shape is not None:
            shape = [((s + k - 1) // k, k) if k else s for s, k in zip(shape, ks)]
        if vs:
            dflt = dflt * vs
    else:
        fiber = H.build_fiber(tree, len(ids), dflt)
    kw = {"rank_ids": ids, "fiber": fiber, "default": dflt}
    if shape is not None:
        kw["shape"] = shape
    return ft.Tensor.fromFiber(**kw)


class _Chunks:
    """a consumer of consumable traces that KEEPS every chunk it is handed (by reference): at the end the
    concatenation of the kept chunks is the trace, a delivered chunk never changes afterwards, and no list
    object is handed out twice"""

    def __init__(self, M):
        self.M = M
        self.kept = {}          # key -> [(chunk object, copy at delivery)]
        self.polls = 0

    def poll(self, r, t):
        chunk = self.M.consumeTrace(r, t)
        self.kept.setdefault(_kstr([r, t]), []).append((chunk, [list(row) for row in chunk]))
        self.polls += 1

    def lines(self, k):
        return _mem_lines([row for chunk, _ in self.kept.get(k, []) for row in chunk])

    def problems(self):
        bad = []
        for k, chunks in self.kept.items():
            for i, (chunk, copy) in enumerate(chunks):
                if [list(row) for row in chunk] != copy:
                    bad.append(f"{k}: chunk {i} changed after delivery")
                    break
            objs = [c for c, _ in chunks]
            if any(a is b for i, a in enumerate(objs) for b in objs[:i]):
                bad.append(f"{k}: the same list object delivered twice")
        return bad


class _DestSpy:
    """watches Metrics.addUse during a nest: for the destination-side rows of every populate loop that is
    NOT inserting (the statement exempts inserting ones) the traced position must be the index of the
    coordinate in the destination fiber at the moment of the call (model-independent)"""

    def __init__(self, ft):
        self.ft = ft
        self.cur = {}          # rank -> (destination fiber, list of records) of the running loop
        self.bad = []
        self.checked = 0

    def __enter__(self):
        M = self.ft.Metrics
        self.orig = M.__dict__["addUse"]
        orig = self.orig.__func__
        spy = self

        def addUse(cls, rank, coord, pos, type_="iter", iteration_num=None):
            if type_ in ("populate_read_0", "populate_write_0") and rank in spy.cur:
                fib, recs = spy.cur[rank]
                recs.append((type_, coord, pos, list(fib.coords)))
            return orig(cls, rank, coord, pos, type_=type_, iteration_num=iteration_num)
        M.addUse = classmethod(addUse)
        return self

    def __exit__(self, *a):
        self.ft.Metrics.addUse = self.orig

    def begin(self, rank, fib):
        self.cur[rank] = (fib, [])
        return (list(fib.coords), self.cur[rank][1])

    def end(self, rank, before, recs, first_coord, compressed=True):
        self.cur.pop(rank, None)
        inserting = compressed and bool(before) and first_coord is not None and first_coord < before[-1]
        if inserting:
            return
        for ty, coord, pos, coords in recs:
            self.checked += 1
            if not (0 <= pos < len(coords) and coords[pos] == coord):
                self.bad.append([rank, ty, coord, pos, coords])


def _prelude(ft, levels, ops):
    """evaluate, without ticking, a lazy union over the fibers of every rank of every operand (what a kernel
    does to size a buffer: len(a_k | b_k)); returns the number of elements seen"""
    seen = 0
    for x, root in enumerate(ops):
        if root is None:
            continue
        frontier = [root]
        for _ in op_levels(levels, x):
            nxt = []
            for f in frontier:
                other = frontier[0]
                for _c, p in (f | other).iterOccupancy(tick=False):
                    seen += 1
                for _c, p in f.iterOccupancy(tick=False):
                    if isinstance(p, ft.Fiber):
                        nxt.append(p)
            frontier = nxt
    return seen


def _build_expr(ft, lv, ops, z):
    """the iterable of one `for` of the nest"""
    s = lv["src"]
    kind = s["kind"]
    if kind == "fiber":
        expr = ops[s["x"]]
    elif kind == "and":
        expr = ops[s["x"]] & ops[s["y"]]
    elif kind == "lf":
        expr = ft.Fiber.intersection(ops[s["x"]], ops[s["y"]], style="leader-follower")
    elif kind == "dense":
        expr = ops[s["x"]].iterShapeRef()
    elif kind == "orand":
        # a union next to labelled operators at the same rank: (a | b) & (a & b)
        expr = (ops[s["x"]] | ops[s["y"]]) & (ops[s["x"]] & ops[s["y"]])
    else:
        off = s["off"]
        interval = None if s["lo"] is None else (s["lo"], s["hi"])
        expr = ops[s["x"]].project(trans_fn=lambda c, o=off: c + o, interval=interval, rank_id=lv["rank"])
    if lv["pop"]:
        expr = z << expr
    return expr


def _prebuildable(levels):
    """levels whose iterable only involves operand ROOTS (so that it can be built ahead of the nest, even
    before beginCollect, and iterated every time the level runs)"""
    out = []
    zl = z_levels(levels)
    for i, lv in enumerate(levels):
        s = lv["src"]
        if s["kind"] == "dense":
            continue            # a generator: single use
        xs = [s["x"]] + ([s["y"]] if "y" in s else [])
        if all(op_levels(levels, x)[0] == i for x in xs) and (not lv["pop"] or zl[0] == i):
            out.append(i)
    return out


def _exec_nest(ft, levels, ops, z, i, spy=None, pre=None, poll=None):
    lv = levels[i]
    s = lv["src"]
    kind = s["kind"]
    expr = pre[i] if pre and i in pre else _build_expr(ft, lv, ops, z)
    watch = None
    if lv["pop"]:
        if spy is not None:
            watch = spy.begin(lv["rank"], z)
    last = i + 1 == len(levels)
    first = None
    for _c, p in expr:
        if first is None:
            first = _c
        z2 = z
        if lv["pop"]:
            z2, p = p
        ops2 = list(ops)
        if kind == "orand":
            _union_part, inner = p
            ops2[s["x"]], ops2[s["y"]] = inner
        elif kind in ("and", "lf"):
            ops2[s["x"]], ops2[s["y"]] = p
        else:
            ops2[s["x"]] = p
        if last:
            if isinstance(z2, ft.Payload):
                prod = 1
                for o in ops2:
                    if isinstance(o, ft.Payload):
                        prod = prod * o.value
                z2 += prod
        else:
            _exec_nest(ft, levels, ops2, z2, i + 1, spy, pre, poll)
        if poll is not None and i <= 1:
            poll()              # the consumer polls after every iteration of the two outermost loops
    if watch is not None:
        spy.end(lv["rank"], watch[0], watch[1], first, not lv.get("zU"))


def _run_kernel_once(ft, case, ncu, consumable, clean=True):
    M = ft.Metrics
    levels, dflt = case["levels"], case["dflt"]
    ops = []
    for x, o in enumerate(case["ops"]):
        if o["d"] == 0:
            ops.append(None)
        else:
            ks = [levels[i].get("tuple") for i in op_levels(levels, x)]
            ids = op_rank_ids(levels, x)
            ufmt = [any(u[0] == x for u in levels[i].get("uOps", [])) for i in op_levels(levels, x)]
            vs = case.get("vscale")
            if o.get("free") and o["d"] == 1 and not ks[0]:
                # an unowned fiber: rank id, format and shape live in its own rank attributes
                f = ft.Fiber([c for c, _ in o["tree"]], [(v * vs if vs else v) for _, v in o["tree"]],
                             default=(dflt * vs if vs else dflt), shape=(o["shape"][0] if "shape" in o else None))
                f.getRankAttrs().setId(ids[0])
                if ufmt[0]:
                    f.getRankAttrs().setFormat("U")
                ops.append(f)
            else:
                t = _build_tensor(ft, ids, o["tree"], dflt, shape=o.get("shape"), ks=ks, vs=vs)
                for rid, u in zip(ids, ufmt):
                    if u:
                        t.setFormat(rid, "U")
                ops.append(t.getRoot())
    z = None
    if case["z"] is not None:
        zr = [levels[i]["rank"] for i in z_levels(levels)]
        zt = _build_tensor(ft, zr, case["z"]["tree"], dflt, shape=case["z"]["shape"])
        for i in z_levels(levels):
            if levels[i].get("zU"):
                zt.setFormat(levels[i]["rank"], "U")
        z = zt.getRoot()
    d = scratch()
    prefix = os.path.join(d, "t")
    if clean:
        for f in glob.glob(prefix + "-*.csv"):
            os.remove(f)
    err, mem = None, {}
    dest = (0, [])
    chunk_problems = []
    late, late_ok = None, True
    try:
        pre = None
        if case.get("early"):
            # lazy fibers built OUTSIDE the collection bracket, consumed inside it
            pre = {i: _build_expr(ft, levels[i], ops, z) for i in _prebuildable(levels)}
        M.beginCollect(prefix)
        M.setNumCachedUses(ncu)
        for lv in levels:
            if lv.get("tuple"):
                M.associateShape(lv["rank"], (1 << 20, lv["tuple"]))
        for r, t in case["traced"]:
            M.trace(r, t, consumable=consumable)
        if case.get("prematch", True):
            for a, b in case["matches"]:
                M.matchRanks(a, b)
        if case.get("prelude"):
            _prelude(ft, levels, ops)
        chunks = _Chunks(M)
        poll = None
        if consumable:
            def poll():
                for r, t in case["traced"]:
                    chunks.poll(r, t)
            poll()              # a poll while nothing is pending: no traced loop has started yet
        with _DestSpy(ft) as spy:
            _exec_nest(ft, levels, ops, z, 0, spy, pre, poll)
        dest = (spy.checked, spy.bad[:2])
        if not case.get("early") and levels[0]["src"]["kind"] != "dense":
            late = _build_expr(ft, levels[0], ops, z)     # built inside the bracket, consumed after it
        if consumable:
            poll()
            for r, t in case["traced"]:
                mem[_kstr([r, t])] = chunks.lines(_kstr([r, t]))
            chunk_problems = chunks.problems()
        M.endCollect()
    except BaseException as e:          # StopIteration is not an Exception subclass issue, but be safe
        if isinstance(e, (KeyboardInterrupt, SystemExit)):
            raise
        err = H.err_class(e)
    finally:
        _force_end(ft)
    files = {}
    if not consumable:
        for r, t in case["traced"]:
            p = f"{prefix}-{r}-{t}.csv"
            files[_kstr([r, t])] = _parse_csv(p) if os.path.exists(p) else None
    zsnap = H.snapshot(z) if z is not None else None
    if late is not None and err is None:
        # a lazy fiber built during collection and iterated after endCollect(): no metrics activity at all
        before = {f: open(f).read() for f in glob.glob(prefix + "-*.csv")}
        try:
            for _ in late:
                pass
            late_ok = before == {f: open(f).read() for f in glob.glob(prefix + "-*.csv")} and not M.isCollecting()
        except BaseException as e:
            if isinstance(e, (KeyboardInterrupt, SystemExit)):
                raise
            late_ok = False
        _force_end(ft)
    declared = {f"{prefix}-{r}-{t}.csv" for r, t in case["traced"]}
    stray = sorted(os.path.basename(f) for f in glob.glob(prefix + "-*.csv") if f not in declared)
    # the files are left in place: the next session with the same prefix has to replace them completely
    return files, mem, err, zsnap, (dest[0], dest[1], late_ok and not stray, chunk_problems)


def _run_kernel(ft, case):
    impl = {"files": {}, "mem": None, "err": None}
    outs = []
    dest_checked, dest_bad, late_ok = 0, [], True
    for k, n in enumerate(case["thresholds"]):
        files, _, err, zs, dest = _run_kernel_once(ft, case, n, False, clean=(k == 0))
        impl["files"][str(n)] = files
        outs.append(zs)
        dest_checked += dest[0]
        dest_bad += dest[1]
        late_ok = late_ok and dest[2]
        if err and not impl["err"]:
            impl["err"] = err
    _, mem, err, zs, dmem = _run_kernel_once(ft, case, 1000, True, clean=False)
    for f in glob.glob(os.path.join(scratch(), "t-*.csv")):
        os.remove(f)
    outs.append(zs)
    impl["mem"] = mem
    if err and not impl["err"]:
        impl["err"] = err
    case["impl"] = impl
    # the result of the nest does not depend on the threshold / trace storage either
    case["side"] = {"output_same_for_all_thresholds": all(o == outs[0] for o in outs),
                    "dest_rows_address_element" + (": " + str(dest_bad[0]) if dest_bad else ""): not dest_bad,
                    "lazy_fiber_after_endCollect_silent_and_no_undeclared_files": late_ok,
                    "kept_consumable_chunks_stable_and_distinct" + (": " + dmem[3][0] if dmem[3] else ""): not dmem[3]}
    impl["dest_rows_checked"] = dest_checked
    return case


def _run_api(ft, case):
    M = ft.Metrics
    runs = {}
    problems = []
    for n in case["thresholds"]:
        d = scratch()
        prefix = os.path.join(d, "a")
        for f in glob.glob(prefix + "-*.csv"):
            os.remove(f)
        chunks = _Chunks(M)
        err = None
        try:
            M.beginCollect(prefix)
            M.setNumCachedUses(n)
            for ev in case["evs"]:
                tag = ev[0]
                if tag == "trace":
                    M.trace(ev[1], ev[2], consumable=ev[3])
                elif tag == "match":
                    M.matchRanks(ev[1], ev[2])
                elif tag == "reg":
                    M.registerRank(ev[1])
                elif tag == "use":
                    M.addUse(ev[1], ev[2], ev[3], type_=ev[4], iteration_num=(None if ev[5] is None else list(ev[5])))
                elif tag == "inc":
                    M.incIter(ev[1])
                elif tag == "end":
                    M.endIter(ev[1])
                elif tag == "consume":
                    chunks.poll(ev[1], ev[2])
                elif tag == "endCollect":
                    M.endCollect()
        except BaseException as e:
            if isinstance(e, (KeyboardInterrupt, SystemExit)):
                raise
            err = H.err_class(e)
        # observation = what is in the file plus what is still buffered for it (so that the moment of a
        # flush, which the property declares unobservable, is not compared)
        files = {}
        for r, t in case["keys"]:
            p = f"{prefix}-{r}-{t}.csv"
            lines = _parse_csv(p) if os.path.exists(p) else None
            slot = (M.traces or {}).get(r, {}).get(t) if M.isCollecting() else None
            if slot is not None and slot[0] is not None:
                lines = (lines or []) + _mem_lines(slot[0])
            files[_kstr([r, t])] = lines
        cons = {_kstr(k): chunks.lines(_kstr(k)) for k in case["keys"]}
        problems += chunks.problems()
        _force_end(ft)
        for f in glob.glob(prefix + "-*.csv"):
            os.remove(f)
        runs[str(n)] = {"files": files, "consumed": cons, "err": err}
    case["impl"] = {"runs": runs}
    case["side"] = {"kept_consumable_chunks_stable_and_distinct" + (": " + problems[0] if problems else ""): not problems}
    return case


def run(case):
    ft = H.ft()
    if case["op"] == "kernel":
        fill_extents(case)
        return _run_kernel(ft, case)
    return _run_api(ft, case)


# ---------------------------------------------------------------------------------------
# classification
# ---------------------------------------------------------------------------------------

def nontrivial(case, verdict):
    t = set(verdict.get("tags", []))
    if "OUT_OF_MODEL" in t:
        return False
    if case["op"] == "api":
        runs = case.get("impl", {}).get("runs", {})
        return "flushed" in t or any(any(v for v in r["consumed"].values()) for r in runs.values())
    files = next(iter(case.get("impl", {}).get("files", {}).values()), {}) or {}
    return any(v is not None and len(v) >= 3 for v in files.values())


def _all_empty_nonvoid(tree, depth, dflt):
    """a fiber that stores elements but presents none"""
    def empty(t, d):
        if d == 0:
            return t == dflt
        return all(empty(p, d - 1) for _, p in t)
    def walk(t, d):
        if d == 0:
            return False
        if len(t) > 0 and empty(t, d):
            return True
        return any(walk(p, d - 1) for _, p in t)
    return walk(tree, depth)


def signature(case, verdict, failed):
    why = verdict.get("why", "") or ""
    clauses = [w for w in why.split(";") if w]
    other = sorted(f.split(":")[0] for f in failed if f != "spec")
    if case["op"] == "api":
        return "api:" + "/".join(sorted(set(c.split("@")[0] for c in clauses)) + other)
    crash = [c for c in clauses if c.startswith("crash:")]
    if crash:
        err = crash[0][len("crash:"):]
        projs = [lv for lv in case["levels"] if lv["src"]["kind"] == "proj"]
        if err == "ERR:StopIteration" and any(
                _all_empty_nonvoid(case["ops"][lv["src"]["x"]]["tree"], case["ops"][lv["src"]["x"]]["d"], case["dflt"])
                for lv in projs):
            return "project:operand-stores-only-empty-elements:StopIteration"
        if err == "ERR:AssertionError" and any(
                lv["src"].get("own") and any(k[0] == lv["src"]["srcRank"] for k in case["traced"]) for lv in projs):
            return "project:under-populate-without-prior-matchRanks:AssertionError"
        return "kernel:crash:" + err + ("/" + "/".join(other) if other else "")
    spec = sorted(set(c for c in clauses if not c.startswith(("file@", "mem:", "sim", "wn"))))
    if spec and not other and all(c.startswith("addr-ustale:") for c in spec) and any(
            (not lv["pop"]) and lv["src"]["kind"] == "fiber" and lv.get("uOps") for lv in case["levels"][:-1]):
        return "coord:stale-under-plain-loop-over-uncompressed-rank"
    rest = [c for c in spec if not c.startswith("addr-storage:")]
    if rest or other:
        return "kernel:" + "/".join(rest + other)
    if spec and "explicit-empty" in verdict.get("tags", []):
        return "addr:position-is-ordinal-among-nonempty-elements"
    return "kernel:" + "/".join(spec or ["spec"])


def _tree_shrinks(t):
    if not isinstance(t, list):
        return
    for i in range(len(t)):
        yield t[:i] + t[i + 1:]
    for i, e in enumerate(t):
        if isinstance(e, list) and len(e) == 2 and isinstance(e[1], list):
            for s2 in _tree_shrinks(e[1]):
                yield t[:i] + [[e[0], s2]] + t[i + 1:]


def shrink_candidates(case):
    import copy
    if case["op"] == "api":
        for i in range(len(case["evs"])):
            c = copy.deepcopy(case)
            del c["evs"][i]
            yield c
        return
    for x, o in enumerate(case["ops"]):
        if o["d"] > 0:
            for t2 in _tree_shrinks(o["tree"]):
                c = copy.deepcopy(case)
                c["ops"][x]["tree"] = t2
                yield c
    if case["z"] is not None:
        for t2 in _tree_shrinks(case["z"]["tree"]):
            c = copy.deepcopy(case)
            c["z"]["tree"] = t2
            yield c
    for i in range(len(case["traced"])):
        c = copy.deepcopy(case)
        del c["traced"][i]
        yield c
    if len(case["thresholds"]) > 1:
        for i in range(len(case["thresholds"])):
            c = copy.deepcopy(case)
            del c["thresholds"][i]
            yield c


def extra_evidence(results):
    forms, depth, fam = {}, {}, {"kernel": 0, "api": 0}
    dest = 0
    for c, v in results:
        fam[c["op"]] = fam.get(c["op"], 0) + 1
        if c["op"] == "kernel":
            dest += c.get("impl", {}).get("dest_rows_checked", 0)
            depth[len(c["levels"])] = depth.get(len(c["levels"]), 0) + 1
            for lv in c["levels"]:
                k = (("popU+" if lv.get("zU") else "pop+") if lv["pop"] else "") + lv["src"]["kind"] + \
                    ("/U" if lv.get("uOps") else "") + ("/tuple" if lv.get("tuple") else "")
                forms[k] = forms.get(k, 0) + 1
    return {"case_families": fam, "nest_depths": depth, "level_forms": forms,
            "destination_rows_checked_against_live_fiber": dest}
