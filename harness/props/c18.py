"""C18 — format footprints add up from the tree exactly (fibertree/model/format.py).

One case = one tensor (built through a public constructor or a mutation history) x one format
specification (possibly with missing fields / missing rank keys / missing "root") x a list of
coordinate prefixes.  The real `Format` object is queried for getRoot / getRank(every rank) /
getTensor / getFiber(prefix) / getSubTree(prefix); the Lean driver recomputes every number from
the raw snapshot of the tensor (FtModel/Format.lean) and checks the executable specification on
the implementation's numbers.
"""
import random, itertools, copy, importlib
from harness import common as H

PROP = "C18"
RULE = ("cases = (tensor of 1-3 ranks, its own rank formats left default or set to C/U by Tensor.setFormat, built by fromFiber with/without declared shape, fromUncompressed, or "
        "getPayloadRef insertions into a mutable tensor; per-rank spec dict with any subset of "
        "format/rhbits/fhbits/cbits/pbits/layout, optional root dict; point prefixes). small scope: every tree "
        "over n coordinates per level x {absent, explicit default, value} leaves x {absent, empty, all-default, "
        "populated} sub-fibers x every format assignment {C,U}^d x declared/estimated shapes, every point prefix; "
        "requery: the same Format object asked again after in-place mutations of the tensor "
        "(getPayloadRef insertions at present / absent / out-of-shape points, setRoot): every 2-rank tree over 2 "
        "coordinates x every insertion point; variants (every 4th 2-rank tree x every format): unowned fibers with own format U / own shape / own default, "
        "restricted active ranges, float / bool / str values and float defaults (leaves abstracted to default / "
        "non-default), queries inside a Metrics bracket, boxed coordinates, a second Format on the filled dict; "
        "tensors derived by splitUniform / swizzleRanks; multi-digit coordinates; 4 ranks; flattened ranks (known "
        "finding); lattice: every subset of omitted fields of one rank / omitted rank key / omitted root fields x every "
        "tensor-format assignment; random: larger trees, widths in {0,1,8,32} and random weights, missing fields, ~4% malformed specs "
        "(compared on accept/reject only). non-trivial = accepted spec, some non-zero width, and at least one "
        "of: depth >= 2, an uncompressed rank, an explicit default, an empty leaf fiber")

RANK_IDS = ["M", "K", "J", "H", "G"]
INT_FIELDS = ["rhbits", "fhbits", "cbits", "pbits"]
_fmt_mod = None


def Format():
    global _fmt_mod
    if _fmt_mod is None:
        H.ft()
        _fmt_mod = importlib.import_module("fibertree.model.format")
    return _fmt_mod.Format


# ---------------------------------------------------------------------------------------
# generators
# ---------------------------------------------------------------------------------------

def all_trees(depth, n, leaf_states=(0, 5)):
    """every tree of `depth` levels over coordinates 0..n-1; a leaf slot is absent or one of
    `leaf_states` (0 = explicit default for dflt 0); an interior slot is absent or any sub-tree
    (which includes the empty fiber and fibers of explicit defaults only)"""
    if depth == 1:
        return list(H.all_leaf_fibers(n, leaf_states))
    subs = all_trees(depth - 1, n, leaf_states)
    out = []
    for combo in itertools.product([None] + subs, repeat=n):
        out.append([[c, s] for c, s in enumerate(combo) if s is not None])
    return out


def max_coords(tree, depth, acc=None, level=0):
    """per level max coordinate + 1 (0 if none)"""
    if acc is None:
        acc = [0] * depth
    for c, s in tree:
        acc[level] = max(acc[level], c + 1)
        if level + 1 < depth:
            max_coords(s, depth, acc, level + 1)
    return acc


# weights that make every contribution visible in the sums (distinct magnitudes per rank)
def weighted_spec(D, fmts, scale=1):
    ranks = []
    for i in range(D):
        b = 10 ** (2 * (i % 3))
        ranks.append([["format", fmts[i]], ["rhbits", 7 * b * scale], ["fhbits", 3 * b],
                      ["cbits", 1 * b + i], ["pbits", 2 * b]])
    return {"root": [["hbits", 11], ["pbits", 13]], "ranks": ranks}


def random_spec(rng, D):
    ranks = []
    for i in range(D):
        if rng.random() < 0.08:
            ranks.append(None)
            continue
        e = []
        if rng.random() < 0.75:
            e.append(["format", rng.choice(["C", "U"])])
        for f in INT_FIELDS:
            if rng.random() < 0.7:
                e.append([f, rng.choice([0, 1, 8, 32, 32, rng.randrange(0, 200)])])
        if rng.random() < 0.3:
            e.append(["layout", rng.choice(["contiguous", "interleaved"])])
        rng.shuffle(e)
        ranks.append(e)
    r = rng.random()
    if r < 0.25:
        root = None
    else:
        root = []
        if rng.random() < 0.7:
            root.append(["hbits", rng.choice([0, 1, 8, 64])])
        if rng.random() < 0.7:
            root.append(["pbits", rng.choice([0, 1, 8, 32])])
    return {"root": root, "ranks": ranks}


def malformed_spec(rng, D):
    s = random_spec(rng, D)
    i = rng.randrange(D)
    if s["ranks"][i] is None:
        s["ranks"][i] = []
    e = s["ranks"][i]
    kind = rng.choice(["fmt", "extra", "layout", "float", "strbits", "rootextra", "intfmt"])
    drop = lambda k: [kv for kv in e if kv[0] != k]
    if kind == "fmt":
        e = drop("format") + [["format", rng.choice(["B", "c", "", "CU"])]]
    elif kind == "extra":
        e = e + [[rng.choice(["bits", "hbits", "shape"]), 1]]
    elif kind == "layout":
        e = drop("layout") + [["layout", "soa"]]
    elif kind == "float":
        e = drop("cbits") + [["cbits", {"other": "1.5"}]]
    elif kind == "strbits":
        e = drop("pbits") + [["pbits", "8"]]
    elif kind == "intfmt":
        e = drop("format") + [["format", 0]]
    elif kind == "rootextra":
        s["root"] = (s["root"] or []) + [["rhbits", 0]]
    s["ranks"][i] = e
    return s


def all_points(D, coords):
    pts = [[]]
    for L in range(1, D + 1):
        pts += [list(p) for p in itertools.product(coords, repeat=L)]
    return pts


def sample_points(rng, D, tree, n):
    """present paths, absent paths, a full-length point, an out-of-range coordinate"""
    pts = [[]]
    cur = [(tree, [])]
    for L in range(1, D + 1):
        nxt = []
        for t, p in cur:
            for c, s in t:
                nxt.append((s if L < D else None, p + [c]))
        rng.shuffle(nxt)
        for s, p in nxt[:3]:
            pts.append(p)
        cur = [(s, p) for s, p in nxt[:3] if s is not None]
    for _ in range(4):
        L = rng.randrange(1, D + 1)
        pts.append([rng.randrange(-1, n + 2) for _ in range(L)])
    return pts


COORD_TABLE = [0, 1, 9, 10, 11, 12, 99, 100, 101, 102, 110, 111, 120, 121]


def remap_tree(tree, depth, f):
    return [[f(c), (s if depth == 1 else remap_tree(s, depth - 1, f))] for c, s in tree]


def variant_options(rng, dflt, build):
    """configuration that the footprints must not depend on / value kinds / ways of asking"""
    o = {}
    if rng.random() < 0.25:
        o["vkind"] = rng.choice(["float", "fdflt", "str"] + (["bool"] if dflt == 0 else []) +
                                (["none", "none"] if build != "mutable" else []))
    if build in ("fromFiber", "fromFiber+shape") and rng.random() < 0.25:
        o["unordered"] = rng.randrange(1, 1000)
    if build in ("fromFiber", "fromFiber+shape"):
        if rng.random() < 0.25:
            o["fattrs_fmt"] = "U"
        if rng.random() < 0.2 and "vkind" not in o:
            o["fdefault"] = 7 if dflt == 0 else 0
    if rng.random() < 0.2:
        lo = rng.randrange(0, 3)
        o["active"] = [lo, lo + rng.randrange(1, 3)]
    if rng.random() < 0.15:
        o["metrics"] = True
    if rng.random() < 0.2:
        o["pcoord"] = True
    if rng.random() < 0.2:
        o["reuse_spec"] = True
    return o or None


def mut_points(muts):
    """every prefix of every point an in-place mutation touches"""
    pts = []
    for batch in muts or []:
        for op in batch:
            if op[0] == "ref":
                for L in range(1, len(op[1]) + 1):
                    if op[1][:L] not in pts:
                        pts.append(op[1][:L])
    return pts


def gen(seed, tier):
    quick = tier == "quick"
    # ---- bounded-exhaustive small scope (seed independent) ----
    scopes = [(1, 3), (2, 2)] if quick else [(1, 4), (2, 2), (2, 3), (3, 2)]
    # thorough: the two big families are walked on a sub-lattice whose offset is the seed, so that
    # runs with different seeds together cover them exhaustively
    stride = {(2, 3): 5, (3, 2): 4}
    for D, n in scopes:
        trees = all_trees(D, n)
        step = stride.get((D, n), 1)
        for ti, tree in enumerate(trees):
            if step > 1 and ti % step != seed % step:
                continue
            for fmts in itertools.product("CU", repeat=D):
                for build in ("fromFiber", "fromFiber+shape"):
                    if build == "fromFiber+shape":
                        shape = [n + 1] * D
                    else:
                        shape = None
                    # the tensor's own rank formats (Tensor.setFormat) are a configuration the footprint
                    # must not read: alternate unset / opposite to the spec / all "U"
                    tf = [None, ["U" if f == "C" else "C" for f in fmts], ["U"] * D][(ti + (build == "fromFiber")) % 3]
                    yield {"prop": PROP, "D": D, "dflt": 0, "t": tree, "build": build, "shape": shape, "tfmt": tf,
                           "spec": weighted_spec(D, fmts), "points": all_points(D, list(range(n + 1)))}
    # ---- bounded-exhaustive lattice of omitted spec fields (seed independent) ----
    # for one rank at a time every subset of the six fields is omitted (the other ranks fully
    # specified), the rank key itself is omitted, root fields are omitted; x every assignment of the
    # tensor's own rank formats x both explicit formats; trees whose occupancies differ from the shape
    lat_trees = {1: [[[1, 5]], [], [[0, 5], [1, 0], [3, 2]]],
                 2: [[[0, [[1, 5], [3, 0]]], [2, []], [3, [[0, 0]]]], [[1, [[2, 4]]]]]}
    if not quick:
        lat_trees[3] = [[[0, [[1, [[0, 1], [2, 3]]], [2, []]]], [3, [[0, [[1, 0]]]]]]]
    for D, ltrees in lat_trees.items():
        n = 4
        for tree in ltrees:
            pts = [[]] + [[c] for c in range(n + 1)] + ([[0, 1], [2, 0], [1, 2]] if D >= 2 else [])
            pts = [p for p in pts if len(p) <= D]
            for tf in itertools.product("CU", repeat=D):
                for fmts in (["C"] * D, ["U"] * D):
                    full = weighted_spec(D, fmts)
                    for e in full["ranks"]:
                        e.append(["layout", "interleaved"])
                    for i in range(D):
                        for mask in range(64):
                            e2 = [kv for j, kv in enumerate(full["ranks"][i]) if not (mask >> j) & 1]
                            sp = {"root": full["root"], "ranks": full["ranks"][:i] + [e2] + full["ranks"][i + 1:]}
                            yield {"prop": PROP, "D": D, "dflt": 0, "t": tree, "build": "fromFiber+shape",
                                   "shape": [n] * D, "tfmt": list(tf), "spec": sp, "points": pts}
                        sp = {"root": full["root"], "ranks": full["ranks"][:i] + [None] + full["ranks"][i + 1:]}
                        yield {"prop": PROP, "D": D, "dflt": 0, "t": tree, "build": "fromFiber", "shape": None,
                               "tfmt": list(tf), "spec": sp, "points": pts}
                    for root in (None, [], [["hbits", 11]], [["pbits", 13]]):
                        yield {"prop": PROP, "D": D, "dflt": 0, "t": tree, "build": "fromFiber+shape",
                               "shape": [n] * D, "tfmt": list(tf), "spec": {"root": root, "ranks": full["ranks"]},
                               "points": pts}
    # ---- one Format object asked again after in-place mutations (seed independent) ----
    # 2 ranks over 2 coordinates: every tree x every single full-length insertion point (present,
    # absent, beyond the shape) x every format assignment, all prefixes queried before and after;
    # plus replacing the root by every other tree of a small family (1 and 2 ranks)
    trees22 = all_trees(2, 2)
    for ti, tree in enumerate(trees22):
        for path in itertools.product(range(3), repeat=2):
            fmts = ["CC", "CU", "UC", "UU"][(ti + path[0] * 3 + path[1]) % 4]
            v = [5, 0, None][(ti + path[1]) % 3]
            yield {"prop": PROP, "D": 2, "dflt": 0, "t": tree, "build": "fromFiber+shape", "shape": [3, 3],
                   "tfmt": None, "spec": weighted_spec(2, fmts), "points": all_points(2, [0, 1, 2]),
                   "muts": [[["ref", list(path), v]]]}
    small = {1: all_trees(1, 2), 2: [t for i, t in enumerate(trees22) if i % 9 == 0]}
    for D, fam in small.items():
        for tree in fam:
            for tree2 in fam:
                if tree2 == tree:
                    continue
                fmts = "CU"[(len(tree) + len(tree2)) % 2] * D
                yield {"prop": PROP, "D": D, "dflt": 0, "t": tree, "build": "fromFiber+shape", "shape": [3] * D,
                       "tfmt": None, "spec": weighted_spec(D, fmts), "points": all_points(D, [0, 1, 2]),
                       "muts": [[["setroot", tree2]], [["setroot", tree]]]}
    # ---- configuration the footprints must not read, value kinds, ways of asking (seed independent) ----
    base22 = [t for i, t in enumerate(trees22) if i % 4 == 1]
    base22_7 = [t for i, t in enumerate(all_trees(2, 2, (0, 7))) if i % 4 == 1]
    fixed_opts = [{"fattrs_fmt": "U"}, {"fshape": [5, 4]}, {"fdefault": 7}, {"active": [1, 2]}, {"active": [0, 1]},
                  {"vkind": "float"}, {"vkind": "fdflt"}, {"vkind": "bool"}, {"vkind": "str"},
                  {"metrics": True}, {"pcoord": True}, {"reuse_spec": True}]
    for oi, o in enumerate(fixed_opts):
        for ti, tree in enumerate(base22):
            for fi, fmts in enumerate(["CC", "CU", "UC", "UU"]):
                build = ["fromFiber", "fromFiber+shape"][(ti + fi) % 2]
                sp = weighted_spec(2, fmts)
                if "fattrs_fmt" in o:       # the unowned fibers say "U": an omitted format is still "C"
                    sp["ranks"][fi % 2] = [kv for kv in sp["ranks"][fi % 2] if kv[0] != "format"]
                yield {"prop": PROP, "D": 2, "dflt": 0, "t": tree, "build": build,
                       "shape": [3, 3] if build == "fromFiber+shape" else None, "tfmt": None, "opt": o,
                       "spec": sp, "points": all_points(2, [0, 1, 2]),
                       "muts": [[["ref", [ti % 3, (ti + fi) % 3], 5]]] if build == "fromFiber+shape" and oi % 2 else None}
    for ti, tree in enumerate(base22_7):    # tensor default 7, fibers built with default 0 / float default 7.0
        for fi, fmts in enumerate(["CC", "CU", "UC", "UU"]):
            for o in ({"fdefault": 0}, {"vkind": "fdflt"}, {"vkind": "float"}):
                yield {"prop": PROP, "D": 2, "dflt": 7, "t": tree, "build": "fromFiber+shape", "shape": [3, 3],
                       "tfmt": None, "opt": o, "spec": weighted_spec(2, fmts), "points": all_points(2, [0, 1, 2])}
    # ---- leaf default None ("no empty value"): stored zeros are values; Tensor.makePopulated ----
    for ti, tree in enumerate(base22):
        for fi, fmts in enumerate(["CC", "CU", "UC", "UU"]):
            build = ["fromFiber", "fromFiber+shape", "fromUncompressed"][(ti + fi) % 3]
            yield {"prop": PROP, "D": 2, "dflt": 0, "t": tree, "build": build,
                   "shape": None if build == "fromFiber" else [3, 3], "tfmt": None, "opt": {"vkind": "none"},
                   "spec": weighted_spec(2, fmts), "points": all_points(2, [0, 1, 2]),
                   "muts": [[["ref", [ti % 3], None]], [["setroot", base22[(ti + 3) % len(base22)]]]] if fi == 0 else None}
    for D in (1, 2, 3):
        for shape in itertools.product([1, 2, 3] if D < 3 else [1, 2], repeat=D):
            for fmts in itertools.product("CU", repeat=D):
                for initial, mpd in ((0, "omit"), (5, "omit"), (0, 0), (0, 7), (7, 7)):
                    yield {"prop": PROP, "D": D, "dflt": 0, "t": [], "build": "makePopulated", "shape": list(shape),
                           "initial": initial, "mp_default": mpd, "tfmt": None, "spec": weighted_spec(D, fmts),
                           "points": all_points(D, [0, 1, 2] if D < 3 else [0, 1])}
    # ---- unordered fibers (ordered=False, elements stored in a shuffled order) ----
    unord = base22 + [t for i, t in enumerate(all_trees(2, 3)) if i % 197 == 5]
    for ti, tree in enumerate(unord):
        for fi, fmts in enumerate(["CC", "CU", "UC", "UU"]):
            n = 1 + max([0] + max_coords(tree, 2))
            for useed in (1, 2):
                build = ["fromFiber", "fromFiber+shape"][(ti + fi + useed) % 2]
                yield {"prop": PROP, "D": 2, "dflt": 0, "t": tree, "build": build,
                       "shape": [n, n] if build == "fromFiber+shape" else None, "tfmt": None,
                       "opt": {"unordered": useed}, "spec": weighted_spec(2, fmts),
                       "points": all_points(2, list(range(n + 1))),
                       "muts": [[["ref", [(ti + fi) % (n + 1), useed % n], 5]]] if build == "fromFiber+shape" and fi % 2 else None}
    # ---- tensors derived by a transform: splitUniform (one more rank), swizzleRanks ----
    pts3 = all_points(3, [0, 1, 2, 3])
    for ti, tree in enumerate(base22):
        for step in (1, 2, 3):
            for depth in (0, 1):
                fmts = "".join("CU"[(ti + step + depth + k) % 2] for k in range(3))
                yield {"prop": PROP, "D": 3, "dflt": 0, "t": tree, "build": "split", "xarg": [step, depth],
                       "shape": [4, 4], "tfmt": ["U", None] if ti % 2 else None, "spec": weighted_spec(3, fmts),
                       "points": pts3}
        for fmts in ("CC", "CU", "UC", "UU"):
            yield {"prop": PROP, "D": 2, "dflt": 0, "t": tree, "build": "swizzle", "xarg": [1, 0],
                   "shape": [3, 3], "tfmt": None, "spec": weighted_spec(2, fmts), "points": all_points(2, [0, 1, 2])}
    for ti, tree in enumerate(all_trees(1, 4)):
        for step in (1, 2, 3):
            yield {"prop": PROP, "D": 2, "dflt": 0, "t": tree, "build": "split", "xarg": [step, 0],
                   "shape": [5], "tfmt": None, "spec": weighted_spec(2, ["CC", "CU", "UC", "UU"][(ti + step) % 4]),
                   "points": all_points(2, [0, 1, 2, 3, 4])}
    # ---- merged ranks: the rank id is a list (known finding: no spec can be written for it) ----
    t3 = [[0, [[1, [[0, 1], [2, 3]]], [2, []]]], [3, [[0, [[1, 5]]]]]]
    for depth, style in ((0, "tuple"), (1, "tuple"), (1, "linear"), (0, "absolute")):
        yield {"prop": PROP, "D": 2, "dflt": 0, "t": t3, "build": "flatten", "xarg": [depth, style], "shape": [4, 4, 4],
               "tfmt": None, "spec": {"root": None, "ranks": [None, None]}, "points": [[]]}
    # 3-rank trees in the quick tier: a seeded sample of the exhaustive family
    rng = random.Random(seed)
    if quick:
        trees3 = all_trees(3, 2)
        for _ in range(1000):
            tree = rng.choice(trees3)
            fmts = [rng.choice("CU") for _ in range(3)]
            build = rng.choice(["fromFiber", "fromFiber+shape"])
            yield {"prop": PROP, "D": 3, "dflt": 0, "t": tree, "build": build,
                   "shape": [3, 3, 3] if build == "fromFiber+shape" else None,
                   "tfmt": [rng.choice([None, "C", "U"]) for _ in range(3)],
                   "spec": weighted_spec(3, fmts), "points": all_points(3, [0, 1, 2])}
    # ---- seeded random ----
    nrand = 7000 if quick else 60000
    for i in range(nrand):
        D = rng.choice([1, 2, 2, 3, 3] * 4 + [4])
        n = rng.choice([2, 3]) if D == 4 else rng.choice([2, 3, 4, 6]) if D == 3 else rng.choice([2, 3, 5, 8, 12])
        dflt = rng.choice([0, 0, 0, 7])
        pool = (1, 2, -3, 7, 0)
        tree = H.gen_tree(rng, D, n, pool, dflt)
        if rng.random() < 0.15:
            # multi-digit coordinates (9 / 10 / 100 …): an increasing re-labelling of 0..n-1
            tab = sorted(rng.sample(COORD_TABLE[:6] if D >= 3 else COORD_TABLE, min(n, 6 if D >= 3 else len(COORD_TABLE))))
            tab = tab + [tab[-1] + 1 + k for k in range(n + 2 - len(tab))]
            tree = remap_tree(tree, D, lambda c: tab[c])
            n = tab[n - 1] + 1
        r = rng.random()
        mc = max_coords(tree, D)
        if r < 0.30:
            build, shape = "fromFiber", None
        elif r < 0.60:
            build, shape = "fromFiber+shape", [max(1, m) + rng.randrange(0, 3) for m in mc]
        elif r < 0.68:
            # declared shape smaller than some stored coordinate (out-of-shape elements)
            build, shape = "fromFiber+shape", [max(1, m - rng.randrange(0, 2)) for m in mc]
        elif r < 0.84:
            build, shape = "fromUncompressed", [max(1, m) + rng.randrange(0, 2) for m in mc]
        else:
            build, shape = "mutable", [max(1, m) + rng.randrange(0, 2) for m in mc]
        if rng.random() < 0.04:
            spec = malformed_spec(rng, D)
        elif rng.random() < 0.3:
            spec = weighted_spec(D, [rng.choice("CU") for _ in range(D)], scale=rng.choice([0, 1, 3]))
        else:
            spec = random_spec(rng, D)
        tf = [rng.choice([None, "C", "U", "U"]) for _ in range(D)] if rng.random() < 0.6 else None
        opt = variant_options(rng, dflt, build) if rng.random() < 0.4 else None
        if opt and opt.get("vkind") and build == "fromUncompressed" and dflt != 0:
            opt.pop("vkind")
        muts = None
        if shape is not None and rng.random() < 0.35:
            # rounds of in-place mutations between queries of the same Format object; the points
            # touched are queried (as prefixes) before and after
            muts = []
            for _ in range(rng.choice([1, 1, 2])):
                batch = []
                for _ in range(rng.choice([1, 1, 2, 3])):
                    r2 = rng.random()
                    if r2 < 0.12:
                        batch.append(["setroot", H.gen_tree(rng, D, n, pool, dflt)])
                    else:
                        L = D if r2 < 0.8 else rng.randrange(1, D + 1)
                        path = [rng.randrange(0, n + 1) for _ in range(L)]
                        batch.append(["ref", path, rng.choice(pool) if L == D and rng.random() < 0.8 else None])
                muts.append(batch)
            if opt and opt.get("vkind") == "none":
                # a leaf cannot be created by reference when there is no default value to create it with
                muts = [[op for op in b if op[0] == "setroot" or len(op[1]) < D] for b in muts]
                muts = [b for b in muts if b] or None
        yield {"prop": PROP, "D": D, "dflt": dflt, "t": tree, "build": build, "shape": shape, "tfmt": tf,
               "tfmt_first": rng.random() < 0.5, "muts": muts, "opt": opt,
               "spec": spec, "points": sample_points(rng, D, tree, n) + mut_points(muts),
               "order": rng.randrange(1 << 30)}
        if i % 12 == 0:
            # a tensor derived by a transform from a random declared-shape tensor
            bd = rng.choice([1, 2, 2, 3])
            n2 = rng.choice([2, 3, 4, 6])
            base = H.gen_tree(rng, bd, n2, pool, 0)
            shp = [max(1, m) + rng.randrange(0, 2) for m in max_coords(base, bd)]
            tf2 = [rng.choice([None, "C", "U"]) for _ in range(bd)]
            if bd >= 2 and rng.random() < 0.4:
                perm = list(range(bd))
                rng.shuffle(perm)
                kind, D2, xarg = "swizzle", bd, perm
            else:
                kind, D2, xarg = "split", bd + 1, [rng.choice([1, 2, 3, 4]), rng.randrange(0, bd)]
            yield {"prop": PROP, "D": D2, "dflt": 0, "t": base, "build": kind, "xarg": xarg, "shape": shp,
                   "tfmt": tf2, "spec": random_spec(rng, D2) if rng.random() < 0.5 else
                   weighted_spec(D2, [rng.choice("CU") for _ in range(D2)]),
                   "points": sample_points(rng, min(D2, bd), base, n2) + all_points(min(D2, 2), [0, 1, 2, 3])}


# ---------------------------------------------------------------------------------------
# running the real code
# ---------------------------------------------------------------------------------------

def _dense(tree, depth, shape, level=0):
    row = []
    d = dict((c, s) for c, s in tree)
    for c in range(shape[level]):
        if depth == 1:
            row.append(d.get(c, 0))
        else:
            row.append(_dense(d.get(c, []), depth - 1, shape, level + 1))
    return row


def _leaves(tree, depth, prefix=()):
    """(path, value) of leaves and (path, None) of empty sub-fibers"""
    for c, s in tree:
        if depth == 1:
            yield prefix + (c,), s
        else:
            if not s:
                yield prefix + (c,), None
            else:
                yield from _leaves(s, depth - 1, prefix + (c,))


def set_formats(t, case):
    """the tensor's own per-rank iteration formats (Tensor.setFormat): part of the configuration"""
    for rid, f in zip(t.getRankIds(), case.get("tfmt") or []):
        if f is not None:
            t.setFormat(rid, f)


def tensor_default(case):
    """the leaf default the tensor is created with (value kinds: float defaults 0.5 / 7.0)"""
    o = case.get("opt") or {}
    if o.get("vkind") == "fdflt":
        return 0.5 if case["dflt"] == 0 else 7.0
    if o.get("vkind") == "none":    # "no empty value": what Tensor.makePopulated uses
        return None
    return case["dflt"]


def leaf_value(case, v):
    """value kinds: the generator's int leaf is mapped to a float / bool / str of the same emptiness"""
    kind = (case.get("opt") or {}).get("vkind")
    d = case["dflt"]
    if kind is None or v is None:
        return v
    if kind == "float":
        return v if v == d else v + 0.25
    if kind == "fdflt":
        dd = tensor_default(case)
        if v == d:
            return 7 if dd == 7.0 and v % 2 else dd      # 7 == 7.0: an int equal to the float default
        return v if v != dd else v + 1
    if kind == "bool":      # only generated with default 0: False == 0 is empty, True is not
        return bool(v)
    if kind == "str":
        return v if v == d else "v%d" % v
    if kind == "none":      # every stored int (zeros included) is a value
        return v
    raise ValueError(kind)


def _build_fiber(case, tree, depth, level=0):
    """unowned fibers through the public constructor; options: own default different from the
    tensor's, own shape, own rank-attribute format (all superseded by the owning rank on adoption)"""
    F = H.ft().Fiber
    o = case.get("opt") or {}
    kw = {"default": o["fdefault"] if "fdefault" in o else tensor_default(case)}
    if o.get("fshape"):
        kw["shape"] = o["fshape"][level]
    if o.get("unordered"):
        # fibers created with ordered=False keep insertion order: store the elements shuffled
        tree = list(tree)
        random.Random(o["unordered"] * 7919 + level * 31 + len(tree) + sum(c for c, _ in tree)).shuffle(tree)
        kw["ordered"] = False
    if depth == 1:
        f = F([c for c, _ in tree], [leaf_value(case, v) for _, v in tree], **kw)
    else:
        f = F([c for c, _ in tree], [_build_fiber(case, sub, depth - 1, level + 1) for _, sub in tree], **kw)
    if o.get("fattrs_fmt"):
        f.getRankAttrs().setFormat(o["fattrs_fmt"])
    return f


def build_tensor(case):
    ft = H.ft()
    D, tree, build, shape = case["D"], case["t"], case["build"], case.get("shape")
    dflt = tensor_default(case)
    ids = RANK_IDS[:D]
    if build in ("fromFiber", "fromFiber+shape"):
        fib = _build_fiber(case, tree, D)
        return ft.Tensor.fromFiber(rank_ids=ids, fiber=fib, shape=shape, default=dflt)
    if build == "fromUncompressed":
        dense = _dense(tree, D, shape)
        if (case.get("opt") or {}).get("vkind"):
            mp = lambda x: [mp(y) for y in x] if isinstance(x, list) else (0 if x == 0 and case["dflt"] != 0 else leaf_value(case, x))
            dense = mp(dense)
        return ft.Tensor.fromUncompressed(rank_ids=ids, root=dense, shape=shape, default=dflt)
    if build == "mutable":
        t = ft.Tensor(rank_ids=ids, shape=shape, default=dflt)
        if case.get("tfmt_first"):
            set_formats(t, case)
        items = list(_leaves(tree, D))
        random.Random(case.get("order", 0)).shuffle(items)
        for path, v in items:
            ref = t.getPayloadRef(*path)
            if v is not None:
                ref <<= leaf_value(case, v)
        return t
    if build == "makePopulated":
        kw = {} if case.get("mp_default", "omit") == "omit" else {"default": case["mp_default"]}
        return ft.Tensor.makePopulated(ids, shape, initial=case.get("initial", 0), **kw)
    if build in ("split", "swizzle", "flatten"):
        # tensors derived by a transform (the result is what is measured; formats carry over)
        bd = {"split": D - 1, "swizzle": D, "flatten": D + 1}[build]
        base = ft.Tensor.fromFiber(rank_ids=RANK_IDS[:bd], fiber=_build_fiber(case, tree, bd), shape=shape,
                                   default=dflt)
        set_formats(base, case)
        a = case["xarg"]
        if build == "split":
            return base.splitUniform(a[0], depth=a[1])
        if build == "swizzle":
            return base.swizzleRanks([RANK_IDS[i] for i in a])
        return base.flattenRanks(depth=a[0], coord_style=a[1])
    raise ValueError(build)


def _to_py(d):
    if d is None:
        return None
    out = {}
    for k, v in d:
        if isinstance(v, dict) and "other" in v:
            v = float(v["other"])
        out[k] = v
    return out


def _from_py(d):
    out = []
    for k, v in d.items():
        if isinstance(v, bool) or not isinstance(v, (int, str)):
            v = {"other": repr(v)}
        out.append([k, v])
    return out


def _walk_ids(fiber, path, level, acc):
    acc.setdefault(level, []).append(fiber)
    yield id(fiber), path
    Fiber = H.ft().Fiber
    for c, p in zip(fiber.coords, fiber.payloads):
        if isinstance(p, Fiber):
            yield from _walk_ids(p, path + [c], level + 1, acc)


def _ranklists(t):
    return [[id(f) for f in r.getFibers()] for r in t.ranks]


def _canon(x, dflt):
    """value kinds other than int: a leaf is abstracted to 0 (equal to the tensor's default) or 1"""
    if isinstance(x, list):
        return [[c, _canon(p, dflt)] for c, p in x]
    if isinstance(x, dict) and "float" in x:
        x = float.fromhex(x["float"])
    return 0 if x == dflt else 1


NOCANON = object()


def _observe_state(t, ids, side, canon=NOCANON):
    """abstraction function: the tensor as it is now"""
    root = t.getRoot()
    by_level = {}
    id2path = dict(_walk_ids(root, [], 0, by_level))
    state = H.snapshot(root)
    if canon is not NOCANON:
        state = _canon(state, canon)
    ph = {"state": state, "shape": t.getShape(), "tformat": [t.getFormat(r) for r in ids]}
    ph["ranklists"] = [[[id2path.get(id(f)), len(f.coords)] for f in r.getFibers()] for r in t.ranks]
    # modelling precondition: the shape an uncompressed fiber reports is its rank's shape
    ok = all(f.getShape(all_ranks=False) == ph["shape"][lvl] for lvl, fs in by_level.items() for f in fs)
    side["pre:fiber-shape-is-rank-shape"] = side.get("pre:fiber-shape-is-rank-shape", True) and ok
    return ph


def _query(fmt, t, ids, points, ph, side, opt=None):
    """one round of queries against one (possibly already used) Format object"""
    opt = opt or {}
    if opt.get("pcoord"):       # coordinates handed over boxed
        P = H.ft().Payload
        points = [[P(c) for c in p] for p in points]
    if opt.get("metrics"):      # queries issued inside a metrics collection bracket
        H.ft().Metrics.beginCollect()
    try:
        _query_inner(fmt, t, ids, points, ph, side)
    finally:
        if opt.get("metrics"):
            H.ft().Metrics.endCollect()


def _query_inner(fmt, t, ids, points, ph, side):
    before = (copy.deepcopy(H.snapshot(t.getRoot())), _ranklists(t), t.getShape())
    ph["root"] = fmt.getRoot()
    ph["ranks"] = [fmt.getRank(r) for r in ids]
    ph["tensor"] = fmt.getTensor()
    fib, sub = [], []
    for p in points:
        try:
            fib.append(fmt.getFiber(*p))
        except AssertionError:
            fib.append(None)
        try:
            sub.append(fmt.getSubTree(*p))
        except AssertionError:
            sub.append(None)
    ph["fiber"], ph["subtree"] = fib, sub
    ph["tensor2"] = fmt.getTensor()
    after = (H.snapshot(t.getRoot()), _ranklists(t), t.getShape())
    side["tensor_unchanged"] = side.get("tensor_unchanged", True) and before[0] == after[0] and before[2] == after[2]
    side["rank_lists_unchanged"] = side.get("rank_lists_unchanged", True) and before[1] == after[1]


def apply_mutations(t, case, batch):
    """in-place changes of the tensor through its public API (the Format object stays the same)"""
    for op in batch:
        if op[0] == "ref":          # getPayloadRef(*path) creates what is missing; optional `<<= v`
            ref = t.getPayloadRef(*op[1])
            if op[2] is not None:
                ref <<= leaf_value(case, op[2])
        elif op[0] == "setroot":    # a different tree becomes the tensor's root
            t.setRoot(_build_fiber(case, op[1], case["D"]))
        else:
            raise ValueError(op)


def run(case):
    F = Format()
    D = case["D"]
    opt = case.get("opt") or {}
    side = {}
    t = build_tensor(case)
    if case["build"] not in ("split", "swizzle", "flatten"):
        set_formats(t, case)
    ids = t.getRankIds()
    if opt.get("active"):       # restricted active ranges on the root and its children: not read by footprints
        lo, hi = opt["active"]
        t.getRoot().setActive((lo, hi))
        for p in t.getRoot().payloads:
            if isinstance(p, H.ft().Fiber):
                p.setActive((lo, hi))
    canon = NOCANON
    if opt.get("vkind"):
        canon = tensor_default(case)
    elif case["build"] == "makePopulated":
        canon = H.ft().Payload.get(t.getDefault())
    if any(not isinstance(r, str) for r in ids):
        # a rank id that cannot be a dictionary key (flattened ranks): the state is still observed
        ids_key = None
    else:
        ids_key = ids
    impl = _observe_state(t, ids, side, canon)
    if canon is not NOCANON:
        impl["dflt"] = 0
    spec = {}
    if case["spec"]["root"] is not None:
        spec["root"] = _to_py(case["spec"]["root"])
    for rid, e in zip(ids, case["spec"]["ranks"]):
        if e is not None and ids_key is not None:
            spec[rid] = _to_py(e)
    try:
        fmt = F(t, spec)
        if opt.get("reuse_spec"):   # a second Format built on the dictionary the first one filled in
            fmt = F(t, spec)
    except AssertionError:
        impl["outcome"] = "rejected"
        case["impl"] = impl
        case["side"] = side
        return case
    except Exception as e:
        impl["outcome"] = H.err_class(e)
        case["impl"] = impl
        case["side"] = side
        return case
    impl["outcome"] = "ok"
    try:
        impl["filled"] = {"root": _from_py(fmt.spec["root"]), "ranks": [_from_py(fmt.spec[r]) for r in ids]}
        _query(fmt, t, ids, case["points"], impl, side, opt)
        side["getters"] = all(
            fmt.getCBits(r) == fmt.spec[r]["cbits"] and fmt.getPBits(r) == fmt.spec[r]["pbits"] and
            fmt.getFHBits(r) == fmt.spec[r]["fhbits"] and fmt.getRHBits(r) == fmt.spec[r]["rhbits"] and
            fmt.getFormat(r) == fmt.spec[r]["format"] and fmt.getLayout(r) == fmt.spec[r]["layout"] and
            fmt.getElem(r, "coord") == fmt.spec[r]["cbits"] and fmt.getElem(r, "payload") == fmt.spec[r]["pbits"] and
            fmt.getElem(r, "elem") == fmt.spec[r]["cbits"] + fmt.spec[r]["pbits"] for r in ids)
        if case.get("muts"):
            # the SAME Format object is asked again after each batch of in-place mutations
            phases = [{k: v for k, v in impl.items() if k not in ("outcome", "filled", "dflt")}]
            for batch in case["muts"]:
                apply_mutations(t, case, batch)
                ph = _observe_state(t, ids, side, canon)
                _query(fmt, t, ids, case["points"], ph, side, opt)
                phases.append(ph)
            impl = {"outcome": "ok", "filled": impl["filled"], "phases": phases}
            if canon is not NOCANON:
                impl["dflt"] = 0
        # the queries leave the (filled) specification alone
        side["spec_unchanged_by_queries"] = impl["filled"] == {
            "root": _from_py(fmt.spec["root"]), "ranks": [_from_py(fmt.spec[r]) for r in ids]}
        side["tensor_attrs_unchanged"] = ids == t.getRankIds() and (canon if canon is not NOCANON else case["dflt"]) == H.ft().Payload.get(t.getDefault())
    except Exception as e:  # a crash on a legal input is an observation
        impl["outcome"] = H.err_class(e)
        side["no_exception:" + H.err_class(e)] = False
    case["impl"] = impl
    case["side"] = side
    return case


# ---------------------------------------------------------------------------------------
# classification
# ---------------------------------------------------------------------------------------

def _nonzero_width(case):
    for e in case["spec"]["ranks"]:
        for k, v in (e or []):
            if k in INT_FIELDS and isinstance(v, int) and v > 0:
                return True
    return False


def nontrivial(case, verdict):
    t = set(verdict.get("tags", []))
    if "spec-rejected" in t or "impl-raised" in t or "OUT_OF_MODEL" in t:
        return False
    if not _nonzero_width(case):
        return False
    fm = [x for x in t if x.startswith("fmt:")]
    has_u = bool(fm) and "U" in fm[0]
    return case["D"] >= 2 or has_u or "explicit-default" in t or "empty-leaf-fiber" in t


ORDER = ["pre:state", "filled-defaults", "root", "fiber", "rank", "subtree", "tensor", "tensor-after-queries"]


def signature(case, verdict, failed):
    """classification of a failing case for known_findings.json: the first failing clause of the
    executable spec (in the order of ORDER), whether the rank lists mirrored the tree, and the
    failing side conditions"""
    parts = []
    out = (case.get("impl") or {}).get("outcome", "")
    if case.get("build") == "flatten" and out.startswith("ERR:"):
        # rank ids of merged ranks are lists: they cannot be keys of (or be looked up in) a spec dict
        return "flattened-rank-id:Format-constructor:" + out
    if "spec" in failed:
        why = verdict.get("why", "").replace("spec fails on: ", "").split(", ")
        first = [w for w in ORDER if w in why]
        later = [w for w in ORDER if any(x.split("@")[0] == w and "@" in x for x in why)]
        if first:
            parts.append("spec:" + first[0])
        elif later:     # every clause held on the first round of queries, fails only when the same
            parts.append("spec:" + later[0] + ":after-in-place-mutation")   # Format object is asked again
        else:
            parts.append("spec:" + (why[0] or "?"))
        if "MIRROR_BROKEN" in verdict.get("tags", []):
            parts.append("mirror-broken")
    rest = sorted(f for f in failed if f != "spec")
    if rest:
        parts.append("/".join(rest))
    return ":".join(parts)


def shrink_candidates(case):
    def with_(**kw):
        c = dict(case)
        c.update(kw)
        return c
    # fewer points
    pts = case["points"]
    if len(pts) > 1:
        for i in range(len(pts)):
            yield with_(points=pts[:i] + pts[i + 1:])
    # smaller tree
    def shr(t):
        if not isinstance(t, list):
            return
        for i in range(len(t)):
            yield t[:i] + t[i + 1:]
        for i, e in enumerate(t):
            c, sub = e
            if isinstance(sub, list):
                for s2 in shr(sub):
                    yield t[:i] + [[c, s2]] + t[i + 1:]
    for t2 in shr(case["t"]):
        yield with_(t=t2)
    # simpler spec: drop a field / drop root
    sp = case["spec"]
    if sp["root"]:
        yield with_(spec={"root": None, "ranks": sp["ranks"]})
    for i, e in enumerate(sp["ranks"]):
        for j in range(len(e or [])):
            e2 = e[:j] + e[j + 1:]
            yield with_(spec={"root": sp["root"], "ranks": sp["ranks"][:i] + [e2] + sp["ranks"][i + 1:]})
    muts = case.get("muts") or []
    for i in range(len(muts)):
        yield with_(muts=muts[:i] + muts[i + 1:])
        for j in range(len(muts[i])):
            if len(muts[i]) > 1:
                yield with_(muts=muts[:i] + [muts[i][:j] + muts[i][j + 1:]] + muts[i + 1:])
    if case.get("tfmt"):
        yield with_(tfmt=None)
        for i, f in enumerate(case["tfmt"]):
            if f is not None:
                yield with_(tfmt=case["tfmt"][:i] + [None] + case["tfmt"][i + 1:])
    # simpler construction
    if case["build"] in ("mutable", "fromUncompressed"):
        yield with_(build="fromFiber+shape")


def extra_evidence(results):
    builds, outcomes = {}, {}
    for c, v in results:
        builds[c.get("build")] = builds.get(c.get("build"), 0) + 1
        o = (c.get("impl") or {}).get("outcome")
        outcomes[o] = outcomes.get(o, 0) + 1
    opts = {}
    for c, _ in results:
        for k, v in (c.get("opt") or {}).items():
            key = k + (":" + str(v) if k in ("vkind", "fattrs_fmt") else "")
            opts[key] = opts.get(key, 0) + 1
    return {"builds": builds, "outcomes": outcomes, "options": opts,
            "depth4_cases": sum(1 for c, _ in results if c["D"] >= 4),
            "queries_compared": sum((2 * len(c["points"]) + c["D"] + 3) * (1 + len(c.get("muts") or []))
                                    for c, _ in results),
            "cases_with_requery_after_mutation": sum(1 for c, _ in results if c.get("muts"))}
