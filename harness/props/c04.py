"""C04 — co-iteration truth tables: correspondence cases for `& | ^ -`."""
import random, itertools
from harness import common as H

PROP = "C04"
OPS = ["and", "or", "xor", "sub"]
RULE = ("cases = (operator, payload depth, operand trees a b, free/tensor-owned); small scope: all "
        "pairs of leaf fibers over n coordinates x {absent, explicit default, v1, v2}; random: "
        "depth 1-2 trees with explicit defaults and empty sub-fibers. non-trivial = both operands "
        "non-empty and at least one of: a match, a skipped explicit default/empty sub-fiber, a tail")


def gen(seed, tier):
    n = 3 if tier == "quick" else 4
    fibs = list(H.all_leaf_fibers(n, [0, 1, 2]))
    for op in OPS:
        for a in fibs:
            for b in fibs:
                yield {"prop": PROP, "op": op, "d": 0, "dflt": 0, "a": a, "b": b, "kind": "free"}
        # the very same fiber object on both sides (a & a, a | a, a ^ a, a - a)
        for a in fibs:
            yield {"prop": PROP, "op": op, "d": 0, "dflt": 0, "a": a, "b": a, "kind": "free", "same": True}
    rng = random.Random(seed)
    nrand = 3000 if tier == "quick" else 60000
    for i in range(nrand):
        op = OPS[i % 4]
        d = rng.choice([0, 0, 1, 1, 2])
        dflt = rng.choice([0, 0, 7])
        n = rng.choice([3, 5, 8, 12])
        pool = (1, 2, -3, 7, 0)
        a = H.gen_tree(rng, d + 1, n, pool, dflt)
        kind = "owned" if (d >= 1 and rng.random() < 0.5) else "free"
        case = {"prop": PROP, "op": op, "d": d, "dflt": dflt, "kind": kind, "fdflt": rng.random() < 0.15}
        # the operands may have different defaults: the default delivered for an absent side is that side's
        if rng.random() < 0.3:
            case["dfltB"] = rng.choice([v for v in (0, 7, -1) if v != dflt])
        b = H.gen_tree(rng, d + 1, n, pool, case.get("dfltB", dflt))
        case.update({"a": a, "b": b})
        if "dfltB" not in case and rng.random() < 0.06:
            case.update({"b": a, "same": True})       # one object on both sides, at any depth
        if kind == "owned" and rng.random() < 0.3:
            # fibers built with their own default 0 inside a tensor of another default: emptiness is judged by
            # the owning rank's default
            case["fib0"] = True
        if kind == "owned" and rng.random() < 0.35:
            # the ranks BELOW the co-iterated (compressed) rank declared uncompressed, per operand: whether an
            # element of the top rank is empty does not depend on how the ranks below would be iterated
            case["lowU"] = rng.choice([[True, False], [False, True], [True, True]])
        yield case
    # uncompressed-format operands: every coordinate of the shape is presented
    small = list(H.all_leaf_fibers(3, [0, 1]))
    k = 0
    for op in OPS:
        for a in small:
            for b in small:
                k += 1
                for j, (fa, fb) in enumerate((("U", "C"), ("C", "U"), ("U", "U"))):
                    # quick: one of the three format combinations per operand pair, in rotation
                    if tier == "quick" and (k + k // 64) % 3 != j:
                        continue
                    yield {"prop": PROP, "op": op, "d": 0, "dflt": 0, "a": a, "b": b, "kind": "fmt",
                           "fa": fa, "fb": fb, "sa": 3, "sb": 3,
                           # every other case: after the first pass both tensors are re-declared wider and grown,
                           # and the same fiber objects are co-iterated again (nothing may be remembered from the
                           # first pass)
                           "grow": (k + j) % 2 == 1}
                    # the same declaration made on an unowned fiber's own rank attributes, with a
                    # restricted active range [la, sa) every now and then
                    if (k + j) % 2 == 0:
                        la, sa = rng.choice([(0, 3), (0, 3), (1, 3), (0, 2), (1, 2)])
                        lb, sb = rng.choice([(0, 3), (0, 3), (1, 3), (0, 2)])
                        yield {"prop": PROP, "op": op, "d": 0, "dflt": 0, "a": a, "b": b, "kind": "fmt", "own": True,
                               "fa": fa, "fb": fb, "sa": sa, "sb": sb, "la": la if fa == "U" else 0,
                               "lb": lb if fb == "U" else 0}
    # aggregated co-iterators: n-ary two-finger intersection, n-ary union, leader-follower
    trip = list(H.all_leaf_fibers(3, [0, 1]))
    k = 0
    for a in trip:
        for b in trip:
            for c in trip:
                k += 1
                if tier == "quick" and k % 5:
                    continue
                for op in ("nand", "nor", "lf"):
                    yield {"prop": PROP, "op": op, "d": 0, "dflt": 0, "ops": [a, b, c], "kind": "free"}
                yield {"prop": PROP, "op": "nand", "d": 0, "dflt": 0, "ops": [a, b, c], "kind": "free",
                       "form": ("right", "left", "hoisted")[k % 3]}
                # n-ary intersection with ONE operand (any position) of a rank declared uncompressed: it presents
                # its whole active range even when it stores nothing (own rank attributes or tensor)
                u = k % 3
                loN, shN = ((0, 3), (1, 3), (0, 2))[(k // 3) % 3]
                yield {"prop": PROP, "op": "nand", "d": 0, "dflt": 0, "ops": [a, b, c], "kind": "free",
                       "fmtN": [{"fmt": "U", "lo": loN, "sh": shN, "own": bool(k % 2)} if i == u else None
                                for i in range(3)]}
                # leader-follower with the LEADER's rank declared uncompressed (own rank attributes or tensor)
                lo0, sh0 = ((0, 3), (1, 3), (0, 2))[k % 3]
                yield {"prop": PROP, "op": "lf", "d": 0, "dflt": 0, "ops": [a, b, c], "kind": "free",
                       "fmt0": "U", "lo0": lo0, "sh0": sh0, "own0": bool(k % 2)}
    for i in range(nrand // 2):
        kk = rng.choice([2, 3, 4])
        d = rng.choice([0, 0, 1])
        dflt = rng.choice([0, 0, 7])
        n = rng.choice([3, 5, 8])
        ops = [H.gen_tree(rng, d + 1, n, (1, 2, -3, 7, 0), dflt) for _ in range(kk)]
        yield {"prop": PROP, "op": rng.choice(["nand", "nor", "lf"]), "d": d, "dflt": dflt, "ops": ops,
               "kind": rng.choice(["free", "owned"]),
               "stale": rng.random() < 0.3,
               **({"lowU": [rng.random() < 0.6 for _ in range(kk)]} if d >= 1 and rng.random() < 0.4 else {})}
    yield from gen_tuple(seed, tier)


def _tuple_fibers(rng, k, n, pool, dflt, maxlen):
    """random 1-level fiber with k-tuple coordinates over 0..n-1 per component, sorted"""
    import itertools
    allc = list(itertools.product(range(n), repeat=k))
    m = rng.randrange(0, min(maxlen, len(allc)) + 1)
    cs = sorted(rng.sample(allc, m))
    return [[list(c), rng.choice(pool)] for c in cs]


def gen_tuple(seed, tier):
    rng = random.Random(seed + 17)
    n = 1500 if tier == "quick" else 40000
    for i in range(n):
        opk = rng.choice(["and", "and", "and", "or", "xor", "sub"])
        if opk == "and":
            ka, kb = rng.choice([(1, 1), (2, 2), (1, 2), (2, 1), (1, 3), (3, 1), (2, 3), (3, 2), (3, 3)])
        else:
            ka = kb = rng.choice([1, 2, 3])
        dflt = rng.choice([0, 0, 7])
        pool = (1, 2, -3, 7, 0)
        a = _tuple_fibers(rng, ka, 3, pool, dflt, 6)
        b = _tuple_fibers(rng, kb, 3, pool, dflt, 6)
        # a k-tuple operand of arity 1 may also be given with plain int coordinates
        yield {"prop": PROP, "op": "tuple", "opk": opk, "ka": ka, "kb": kb, "dflt": dflt, "a": a, "b": b,
               "kind": "free", "intA": ka == 1 and kb > 1 and rng.random() < 0.5, "intB": kb == 1 and ka > 1 and rng.random() < 0.5,
               # either operand may arrive lazy (an all-pass prune: same coordinates, the same stored payload objects)
               "lazyA": rng.random() < 0.3, "lazyB": rng.random() < 0.3}


def _run_tuple(case):
    ft = H.ft()
    dflt = case["dflt"]

    def mk(rows, as_int):
        cs = [r[0][0] if as_int else tuple(r[0]) for r in rows]
        return ft.Fiber(cs, [r[1] for r in rows], default=dflt)
    fa, fb = mk(case["a"], case["intA"]), mk(case["b"], case["intB"])
    before = (H.snapshot(fa), H.snapshot(fb))
    side = {}

    def cj(c):
        return list(c) if isinstance(c, tuple) else [c]
    def arg(f, lazy):
        return f.prune(lambda n, c, p: True) if lazy else f
    try:
        opk = case["opk"]
        xa, xb = arg(fa, case.get("lazyA")), arg(fb, case.get("lazyB"))
        if opk == "and":
            rows = [[cj(c), _ref(fa, pa, dflt), _ref(fb, pb, dflt)] for c, (pa, pb) in xa & xb]
        elif opk == "sub":
            rows = [[cj(c), _ref(fa, pa, dflt)] for c, pa in xa - xb]
        else:
            z = (xa | xb) if opk == "or" else (xa ^ xb)
            rows = [[cj(c), m, _ref(fa, pa, dflt), _ref(fb, pb, dflt)] for c, (m, pa, pb) in z]
        case["impl"] = rows
        if _has_foreign(rows):
            side["delivered_payloads_are_stored_or_fresh_default"] = False
        _note_unaware(rows, side)
        _fresh_distinct(side)
    except Exception as e:
        case["impl"] = []
        side["no_exception:" + H.err_class(e)] = False
    side["operands_unchanged"] = before == (H.snapshot(fa), H.snapshot(fb))
    case["side"] = side
    return case


CUR = {}         # facts about the case being run that `_ref` needs (number of levels below the co-iterated rank)
FRESH = []      # the fresh defaults delivered while the current case runs (kept alive so that ids stay unique)


def _ref(fiber, p, dflt, leaf=None):
    """storage position of a delivered payload, -1 for a fresh default (of the right kind for the level:
    a boxed `dflt` at a leaf rank, an element-less fiber above), -2 for anything else"""
    i = H.pos_of(fiber.payloads, p)
    if i >= 0:
        return i
    Fiber, Payload = H.ft().Fiber, H.ft().Payload
    if isinstance(p, Fiber):
        if len(p.coords) == 0 and leaf is not True:
            # a fresh element-less fiber standing in for an absent row of leaves must itself know the leaf
            # default (one level further down it is what an absent element reads as)
            FRESH.append(p)
            if leaf is False and CUR.get("d") == 1:
                try:
                    if Payload.get(p.getDefault()) != dflt:
                        return -3
                except Exception:
                    return -3
            return -1
        return -2
    if leaf is False:
        return -2
    if isinstance(p, Payload) and p.value == dflt:
        FRESH.append(p)
        return -1
    return -2


def _leafflag(f, d, kind):
    """what kind of fresh default the operand `f` (of a case with d+1 levels) must deliver: True = a boxed
    scalar, False = an element-less fiber, None = unknowable (an unowned, element-less fiber of depth >= 2 cannot
    know that its payloads are fibers)"""
    if d == 0:
        return True
    if kind == "owned":
        return False
    Fiber = H.ft().Fiber
    return False if any(isinstance(p, Fiber) for p in f.payloads) else None


def _fresh_distinct(side):
    """every default delivered for an absent side is a NEW object (an update through one of them must not
    show up at another coordinate)"""
    if len({id(x) for x in FRESH}) != len(FRESH):
        side["fresh_defaults_are_distinct_objects"] = False
    del FRESH[:]


def _ranks(t):
    return [[id(f) for f in r.getFibers()] for r in t.ranks]


def _has_unaware(rows):
    """a fresh element-less fiber that does not carry the leaf default was delivered (code -3)"""
    def walk(x):
        if isinstance(x, list):
            return any(walk(y) for y in x)
        return x == -3
    return any(walk(r[1:]) for r in rows)


def _note_unaware(rows, side):
    if _has_unaware(rows):
        side["fresh_fiber_default_knows_leaf_default"] = False


def _has_foreign(rows):
    """does any delivered payload classify as -2 (neither the operand's stored payload nor a fresh default
    of the absent side)?"""
    def walk(x):
        if isinstance(x, list):
            return any(walk(y) for y in x)
        return x == -2
    return any(walk(r[1:]) for r in rows)


def _run_nary(case):
    ft = H.ft()
    d, dflt, op = case["d"], case["dflt"], case["op"]
    fibers, tensors = [], []
    for t in case["ops"]:
        f = H.build_fiber(t, d + 1, dflt)
        if case["kind"] == "owned":
            tt = ft.Tensor.fromFiber(rank_ids=[f"R{d - i}" for i in range(d + 1)], fiber=f, default=dflt)
            if case.get("lowU") and case["lowU"][len(tensors) % len(case["lowU"])]:
                for i in range(1, d + 1):
                    tt.setFormat(f"R{d - i}", "U")
            tensors.append(tt)
            f = tt.getRoot()
        fibers.append(f)
    for i, fm in enumerate(case.get("fmtN") or []):
        if not fm:
            continue
        t_i = case["ops"][i]
        if fm["own"]:
            f_i = ft.Fiber([c for c, _ in t_i], [v for _, v in t_i], default=dflt, shape=3,
                           active_range=(fm["lo"], fm["sh"]))
            f_i.getRankAttrs().setFormat("U")
        else:
            tt_i = ft.Tensor.fromFiber(rank_ids=["K"], fiber=fibers[i], shape=[fm["sh"]], default=dflt)
            tt_i.setFormat("K", "U")
            tensors.append(tt_i)
            f_i = tt_i.getRoot()
            fm["lo"] = 0
        fibers[i] = f_i
    if case.get("fmt0") == "U":
        t0 = case["ops"][0]
        if case.get("own0"):
            f0 = ft.Fiber([c for c, _ in t0], [v for _, v in t0], default=dflt, shape=3,
                          active_range=(case["lo0"], case["sh0"]))
            f0.getRankAttrs().setFormat("U")
        else:
            tt0 = ft.Tensor.fromFiber(rank_ids=["K"], fiber=fibers[0], shape=[case["sh0"]], default=dflt)
            tt0.setFormat("K", "U")
            tensors.append(tt0)
            f0 = tt0.getRoot()
            case["lo0"] = 0
        fibers[0] = f0
    if case.get("stale"):
        # leave saved positions behind, as an earlier unrelated search would
        for f in fibers:
            if len(f.coords) > 1:
                f.getPayload(f.coords[-1], start_pos=0)
    before = ([H.snapshot(f) for f in fibers], [_ranks(t) for t in tensors])
    side = {}
    get = ft.Payload.get      # the payload tuple may or may not arrive boxed
    lf_ = [_leafflag(f, d, case["kind"]) for f in fibers]
    _r = globals()["_ref"]

    def _ref(f, p, dv):        # n-ary forms: the expected kind of a fresh default is per operand
        return _r(f, p, dv, lf_[[id(x) for x in fibers].index(id(f))])
    try:
        form = case.get("form")
        if op == "nand" and form in ("right", "left", "hoisted") and len(fibers) == 3:
            # the same intersection written with the binary operator and a LAZY operand:
            # a & (b & c), (a & b) & c, and bc = b & c built first and used afterwards
            fa3, fb3, fc3 = fibers
            if form == "left":
                it = ((c, (get(pab)[0], get(pab)[1], pc)) for c, (pab, pc) in (fa3 & fb3) & fc3)
            else:
                bc = fb3 & fc3
                it = ((c, (pa, get(pbc)[0], get(pbc)[1])) for c, (pa, pbc) in fa3 & bc)
            rows = [[c, [_ref(f, p, dflt) for f, p in zip(fibers, ps)]] for c, ps in it]
        elif op == "nand":
            rows = [[c, [_ref(f, p, dflt) for f, p in zip(fibers, get(ps))]] for c, ps in ft.Fiber.intersection(*fibers)]
        elif op == "lf":
            rows = [[c, _ref(fibers[0], get(ps)[0], dflt), [_ref(f, p, dflt) for f, p in zip(fibers[1:], get(ps)[1:])]]
                    for c, ps in ft.Fiber.intersection(*fibers, style="leader-follower")]
        else:
            rows = [[c, get(ps)[0], [_ref(f, p, dflt) for f, p in zip(fibers, get(ps)[1:])]] for c, ps in ft.Fiber.union(*fibers)]
        case["impl"] = rows
        if _has_foreign(rows):
            side["delivered_payloads_are_stored_or_fresh_default"] = False
        _note_unaware(rows, side)
        _fresh_distinct(side)
    except Exception as e:
        case["impl"] = []
        side["no_exception:" + H.err_class(e)] = False
    after = ([H.snapshot(f) for f in fibers], [_ranks(t) for t in tensors])
    side["operands_unchanged"] = before[0] == after[0]
    side["rank_lists_unchanged"] = before[1] == after[1]
    case["side"] = side
    return case


def run(case):
    del FRESH[:]
    CUR["d"] = case.get("d")
    ft = H.ft()
    if "ops" in case:
        return _run_nary(case)
    if case["op"] == "tuple":
        return _run_tuple(case)
    d, dflt, op = case["d"], case["dflt"], case["op"]
    dfltB = case.get("dfltB", dflt)
    if case.get("fdflt"):
        dflt, dfltB = float(dflt), float(dfltB)     # the defaults as floats: other boxing / copy paths
    # an unowned fiber of depth >= 2 that holds no element cannot know that its default is a fiber (it
    # guesses a boxed scalar): the kind of the fresh default is enforced for leaf ranks and tensor operands
    leaf = True if d == 0 else (False if case["kind"] == "owned" else None)
    leafA = leafB = leaf
    fa = H.build_fiber(case["a"], d + 1, dflt)
    fb = H.build_fiber(case["b"], d + 1, dfltB)
    if case.get("fib0") and case["kind"] == "owned" and not case.get("fdflt"):
        fa = H.build_fiber(case["a"], d + 1, 0)
        fb = H.build_fiber(case["b"], d + 1, 0)
    tensors = []
    if case["kind"] == "fmt" and case.get("own"):
        def own(tree, fmt, lo, hi):
            f = ft.Fiber([c for c, _ in tree], [v for _, v in tree], default=dflt, shape=3,
                         **({"active_range": (lo, hi)} if fmt == "U" else {}))
            f.getRankAttrs().setFormat(fmt)
            return f
        fa = own(case["a"], case["fa"], case["la"], case["sa"])
        fb = own(case["b"], case["fb"], case["lb"], case["sb"])
    elif case["kind"] == "fmt":
        ta = ft.Tensor.fromFiber(rank_ids=["K"], fiber=fa, shape=[case["sa"]], default=dflt)
        tb = ft.Tensor.fromFiber(rank_ids=["K"], fiber=fb, shape=[case["sb"]], default=dflt)
        ta.setFormat("K", case["fa"])
        tb.setFormat("K", case["fb"])
        tensors = [ta, tb]
        fa, fb = ta.getRoot(), tb.getRoot()
    if case["kind"] == "owned":
        ids = [f"R{d - i}" for i in range(d + 1)]
        ta = ft.Tensor.fromFiber(rank_ids=ids, fiber=fa, default=dflt)
        tb = ft.Tensor.fromFiber(rank_ids=ids, fiber=fb, default=dfltB)
        for t, low in zip((ta, tb), case.get("lowU", [False, False])):
            for rid in (ids[1:] if low else []):
                t.setFormat(rid, "U")
        tensors = [ta, tb]
        fa, fb = ta.getRoot(), tb.getRoot()
    if case.get("same"):
        fb = fa
        tensors = tensors[:1]
    before = (H.snapshot(fa), H.snapshot(fb), [_ranks(t) for t in tensors])
    side = {}
    leafA, leafB = _leafflag(fa, d, case["kind"]), _leafflag(fb, d, case["kind"])

    def rows_of(z):
        if op == "and":
            return [[c, _ref(fa, pa, dflt, leafA), _ref(fb, pb, dfltB, leafB)] for c, (pa, pb) in z]
        if op == "sub":
            return [[c, _ref(fa, pa, dflt, leafA)] for c, pa in z]
        return [[c, m, _ref(fa, pa, dflt, leafA), _ref(fb, pb, dfltB, leafB)] for c, (m, pa, pb) in z]

    def make():
        return {"and": lambda: fa & fb, "sub": lambda: fa - fb, "or": lambda: fa | fb, "xor": lambda: fa ^ fb}[op]()
    try:
        z = make()
        rows = rows_of(z)
        # the same lazy result walked again, and the operator applied again, deliver the same rows
        if rows_of(z) != rows or rows_of(make()) != rows:
            side["second_iteration_gives_the_same_rows"] = False
        case["impl"] = rows
        if _has_foreign(rows):
            side["delivered_payloads_are_stored_or_fresh_default"] = False
        _note_unaware(rows, side)
        _fresh_distinct(side)
    except Exception as e:  # a crash on a legal input is an observation
        case["impl"] = []
        case["implerr"] = H.err_class(e)
        side["no_exception:" + H.err_class(e)] = False
    after = (H.snapshot(fa), H.snapshot(fb), [_ranks(t) for t in tensors])
    side["operands_unchanged"] = before[:2] == after[:2]
    side["rank_lists_unchanged"] = before[2] == after[2]
    if case.get("grow") and case["kind"] == "fmt" and not case.get("own") and "implerr" not in case:
        try:
            for t, f, sk in ((tensors[0], fa, "sa"), (tensors[1], fb, "sb")):
                t.setShape([case[sk] + 2])
                f.append(case[sk], 5)
            case.update({"a2": H.snapshot(fa), "b2": H.snapshot(fb), "sa2": case["sa"] + 2, "sb2": case["sb"] + 2})
            case["impl2"] = rows_of(make())
            if _has_foreign(case["impl2"]):
                side["delivered_payloads_are_stored_or_fresh_default"] = False
        except Exception as e:
            case["impl2"] = []
            side["no_exception_after_growth:" + H.err_class(e)] = False
    case["side"] = side
    return case


def nontrivial(case, verdict):
    t = set(verdict.get("tags", []))
    if "ops" in case:
        return "nonempty-result" in t or "follower-absent" in t
    if case["op"] == "tuple":
        return "some-empty" not in t
    return not ({"emptyA", "emptyB"} & t) and bool(t & {"match", "skipA", "skipB", "tailA", "tailB"})


def signature(case, verdict, failed):
    """classification of a failing case for known_findings.json"""
    if "ops" in case:
        return f"{case['op']}:{'/'.join(sorted(f.split(':')[0] for f in failed))}"
    if case["op"] == "tuple":
        return f"tuple:{case['opk']}:{case['ka']}-{case['kb']}:{'/'.join(sorted(f.split(':')[0] for f in failed))}"
    if case["op"] == "sub" and case.get("kind") == "fmt" and case.get("fa") == "U" and failed == ["spec"]:
        # the lazy result of `a - b` is iterated in format C: a's default-valued coordinates vanish
        vals = [v for _, v in case["a"]]
        kept = [r for r in verdict.get("model", []) if r[1] >= 0 and vals[r[1]] != case["dflt"]]
        if case.get("impl") == kept:
            return "sub:uncompressed-minuend:default-coordinates-dropped"
        return "sub:uncompressed-minuend:spec"
    if "rank_lists_unchanged" in failed and case["op"] in ("or", "xor") and case["kind"] == "owned":
        return f"{case['op']}:rank-list-growth"
    return f"{case['op']}:{'/'.join(sorted(failed))}"


def shrink_candidates(case):
    """drop / shrink operands but keep at least two of them (the aggregated operators need two)"""
    def tree_shrinks(t):
        for i in range(len(t)):
            yield t[:i] + t[i + 1:]
    if "ops" in case:
        if len(case["ops"]) > 2:
            for i in range(len(case["ops"])):
                c = dict(case); c["ops"] = case["ops"][:i] + case["ops"][i + 1:]; yield c
        for i, t in enumerate(case["ops"]):
            for t2 in tree_shrinks(t):
                c = dict(case); c["ops"] = case["ops"][:i] + [t2] + case["ops"][i + 1:]; yield c
        return
    for key in ("a", "b"):
        for t2 in tree_shrinks(case[key]):
            c = dict(case); c[key] = t2; yield c
