"""C04 — co-iteration truth tables: correspondence cases for `& | ^ -`."""
import random, itertools
from harness import common as H

PROP = "C04"
OPS = ["and", "or", "xor", "sub"]
RULE = ("cases = (operator, payload depth, operand trees a b, free/tensor-owned); small scope: all "
        "pairs of leaf fibers over n coordinates x {absent, explicit default, v1, v2}; random: "
        "depth 1-2 trees with explicit defaults and empty sub-fibers. non-trivial = both operands "
        "non-empty and at least one of: a match, a skipped explicit default/empty sub-fiber, a tail")


def gen(seed, tier):
    n = 3 if tier == "quick" else 4
    fibs = list(H.all_leaf_fibers(n, [0, 1, 2]))
    for op in OPS:
        for a in fibs:
            for b in fibs:
                yield {"prop": PROP, "op": op, "d": 0, "dflt": 0, "a": a, "b": b, "kind": "free"}
    rng = random.Random(seed)
    nrand = 3000 if tier == "quick" else 60000
    for i in range(nrand):
        op = OPS[i % 4]
        d = rng.choice([0, 0, 1, 1, 2])
        dflt = rng.choice([0, 0, 7])
        n = rng.choice([3, 5, 8, 12])
        pool = (1, 2, -3, 7, 0)
        a = H.gen_tree(rng, d + 1, n, pool, dflt)
        b = H.gen_tree(rng, d + 1, n, pool, dflt)
        kind = "owned" if (d >= 1 and rng.random() < 0.5) else "free"
        yield {"prop": PROP, "op": op, "d": d, "dflt": dflt, "a": a, "b": b, "kind": kind}


def _ref(fiber, p, dflt):
    """storage position of a delivered payload, -1 for a fresh default, -2 for anything else"""
    i = H.pos_of(fiber.payloads, p)
    if i >= 0:
        return i
    Fiber, Payload = H.ft().Fiber, H.ft().Payload
    if isinstance(p, Fiber):
        return -1 if len(p.coords) == 0 else -2
    if isinstance(p, Payload) and p.value == dflt:
        return -1
    return -2


def _ranks(t):
    return [[id(f) for f in r.getFibers()] for r in t.ranks]


def run(case):
    ft = H.ft()
    d, dflt, op = case["d"], case["dflt"], case["op"]
    fa = H.build_fiber(case["a"], d + 1, dflt)
    fb = H.build_fiber(case["b"], d + 1, dflt)
    tensors = []
    if case["kind"] == "owned":
        ids = [f"R{d - i}" for i in range(d + 1)]
        ta = ft.Tensor.fromFiber(rank_ids=ids, fiber=fa, default=dflt)
        tb = ft.Tensor.fromFiber(rank_ids=ids, fiber=fb, default=dflt)
        tensors = [ta, tb]
        fa, fb = ta.getRoot(), tb.getRoot()
    before = (H.snapshot(fa), H.snapshot(fb), [_ranks(t) for t in tensors])
    side = {}
    try:
        if op == "and":
            rows = [[c, _ref(fa, pa, dflt), _ref(fb, pb, dflt)] for c, (pa, pb) in fa & fb]
        elif op == "sub":
            rows = [[c, _ref(fa, pa, dflt)] for c, pa in fa - fb]
        else:
            z = (fa | fb) if op == "or" else (fa ^ fb)
            rows = [[c, m, _ref(fa, pa, dflt), _ref(fb, pb, dflt)] for c, (m, pa, pb) in z]
        case["impl"] = rows
    except Exception as e:  # a crash on a legal input is an observation
        case["impl"] = []
        case["implerr"] = H.err_class(e)
        side["no_exception:" + H.err_class(e)] = False
    after = (H.snapshot(fa), H.snapshot(fb), [_ranks(t) for t in tensors])
    side["operands_unchanged"] = before[:2] == after[:2]
    side["rank_lists_unchanged"] = before[2] == after[2]
    case["side"] = side
    return case


def nontrivial(case, verdict):
    t = set(verdict.get("tags", []))
    return not ({"emptyA", "emptyB"} & t) and bool(t & {"match", "skipA", "skipB", "tailA", "tailB"})


def signature(case, verdict, failed):
    """classification of a failing case for known_findings.json"""
    if "rank_lists_unchanged" in failed and case["op"] in ("or", "xor") and case["kind"] == "owned":
        return f"{case['op']}:rank-list-growth"
    return f"{case['op']}:{'/'.join(sorted(failed))}"
