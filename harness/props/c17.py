"""C17 — buffer traffic models (fibertree/model/traffic.py): correspondence cases.

Ops:  filter   Traffic.filterTrace            (rows of the input kept / dropped)
      combine  Traffic._combineTraces         (stable merge by stamp, reads first on ties)
      nextuse  Traffic._buildNextUseTrace     (next access to the same line)
      buffet   Traffic.buffetTraffic          (returned traffic, overflows, directory listing)
      cache    Traffic.cacheTraffic           (same, over an ascending list of capacities)

Traces are synthetic CSV files written into a scratch directory (one fresh directory per call);
the model receives the same rows as lists.
"""
import os, random, itertools, shutil, tempfile, importlib, copy
from harness import common as H

PROP = "C17"
RULE = ("cases = (policy, loop order of depth 1-3, tensors with rank lists/shapes/element widths, bindings "
        "(evict-on root / outer rank / own rank), read and/or write traces as rows, line size, capacities 0..unbounded). "
        "small scope (seed independent): every line sequence of <= 4/5 rows over 3 lines x every split into eviction "
        "windows x evict-on {root, M} (buffet, read-only); every read/write labelling of <= 3/4 rows over an in-shape and a "
        "staging line (buffet and cache); every line sequence of <= 5/6 rows over 3 lines x capacities 0..4 lines, unbounded "
        "(cache), also with stamp ties; all small filter / combine / next-use inputs. random: 1-3 bindings over 1-2 tensors, "
        "loop_ranks renaming, several elements per line, shared trace files, ties, multi-digit stamps / coordinates / "
        "positions (9 next to 10, 2 next to 11, 100; also exhaustively for filter / combine / next-use), ranks declared "
        "format U or C (or the key omitted), every binding type x cbits/pbits/line-size combination (elements per line), "
        "tensors whose shape is only estimated (a pinned binding is then a predicted rejection), line sizes / capacities "
        "that are no multiples, two-component lines whose digits concatenate alike ((1,12) vs (11,2)), every first call repeated with the same argument objects. non-trivial = some line is reused "
        "(buffet/cache), some row dropped and some kept (filter), both files non-empty (combine), a reuse (nextuse)")

_T = {}


def _mods():
    if not _T:
        H.ft()
        tm = importlib.import_module("fibertree.model.traffic")
        fm = importlib.import_module("fibertree.model.format")
        assert os.path.realpath(tm.__file__).startswith(os.path.realpath(H.REPO)), (tm.__file__, H.REPO)
        _T["Traffic"], _T["Format"] = tm.Traffic, fm.Format
    return _T["Traffic"], _T["Format"]


_BASE = None


def _scratch_base():
    """per-process scratch base (removed at exit)"""
    global _BASE
    if _BASE is None or not os.path.isdir(_BASE):
        root = os.environ.get("VERIF_SCRATCH") or tempfile.gettempdir()
        os.makedirs(root, exist_ok=True)
        _BASE = tempfile.mkdtemp(prefix=f"verif-C17-{os.getpid()}-", dir=root)
        import atexit
        atexit.register(lambda d=_BASE: shutil.rmtree(d, ignore_errors=True))
    return _BASE


def _header(ranks, extra=()):
    return ",".join([r + "_pos" for r in ranks] + list(ranks) + ["fiber_pos"] + list(extra))


def _write_rows(path, head, rows):
    with open(path, "w") as f:
        f.write(head + "\n")
        for r in rows:
            f.write(",".join(str(v) for v in r) + "\n")


def _read_rows(path):
    with open(path) as f:
        lines = f.read().split("\n")
    assert lines[-1] == "", "file does not end with a newline"
    return lines[0], [l.split(",") for l in lines[1:-1]]


def _cell(v):
    if v == "True":
        return True
    if v == "False":
        return False
    if v == "None":
        return None
    return int(v)


# ---------------------------------------------------------------------------------------
# real-code runners
# ---------------------------------------------------------------------------------------

def _run_filter(case, d):
    Traffic, _ = _mods()
    n, nf = case["n"], case["nf"]
    names = ["R%d" % i for i in range(max(n, nf))]
    fi, ff, fo = (os.path.join(d, x) for x in ("in.csv", "fil.csv", "out.csv"))
    _write_rows(fi, _header(names[:n]), case["inp"])
    _write_rows(ff, _header(names[:nf]), case["fil"])
    Traffic.filterTrace(fi, ff, fo)
    head, rows = _read_rows(fo)
    case["impl"] = [[int(v) for v in r] for r in rows]
    case["side"] = {"header_copied": head == _header(names[:n]),
                    "only_output_created": sorted(os.listdir(d)) == ["fil.csv", "in.csv", "out.csv"]}


def _run_combine(case, d):
    Traffic, _ = _mods()
    n = case["n"]
    names = ["R%d" % i for i in range(n)]
    args = {"comb_fn": os.path.join(d, "comb.csv")}
    if case["reads"] is not None:
        args["read_fn"] = os.path.join(d, "r.csv")
        _write_rows(args["read_fn"], _header(names), case["reads"])
    if case["writes"] is not None:
        args["write_fn"] = os.path.join(d, "w.csv")
        _write_rows(args["write_fn"], _header(names), case["writes"])
    Traffic._combineTraces(**args)
    head, rows = _read_rows(args["comb_fn"])
    case["impl"] = [[[int(v) for v in r[:-1]], _cell(r[-1])] for r in rows]
    case["side"] = {"header_is_write": head == _header(names, ["is_write"])}


def _run_nextuse(case, d):
    Traffic, _ = _mods()
    n = case["n"]
    names = ["R%d" % i for i in range(n)]
    fi, fo = os.path.join(d, "comb.csv"), os.path.join(d, "next.csv")
    _write_rows(fi, _header(names, ["is_write"]), [r + [w] for r, w in case["rows"]])
    ranks = [nm for nm, m in zip(names, case["mask"]) if m]
    Traffic._buildNextUseTrace(ranks, case["epl"], fi, fo)
    with open(fo) as f:
        lines = f.read().split("\n")
    assert lines[-1] == ""
    body = lines[:-2]          # written back to front, header last
    out = []
    w = 2 * n + 2
    for l in reversed(body):
        cells = [_cell(v) for v in l.split(",")]
        cur, nx = cells[:w], cells[w:]
        out.append([[cur[:-1], cur[-1]], None if nx[0] is None else [nx[:-1], nx[-1]]])
    case["impl"] = out
    case["side"] = {"header_last": lines[-2].split(",")[:w] == _header(names, ["is_write"]).split(",")}


def _layout(case, tensor, rank):
    for b in case["bindings"]:
        if b["tensor"] == tensor and b["rank"] == rank and b["type"] == "elem":
            return "interleaved"
    return "contiguous"


def _call_traffic(case, cap, rows_of, repeat=False):
    """one call of buffetTraffic / cacheTraffic in a fresh scratch directory; `repeat`: call a second time
    with the very same argument objects (Format objects, dicts, files) and compare"""
    Traffic, Format = _mods()
    Tensor = H.ft().Tensor
    d = tempfile.mkdtemp(prefix="c17-", dir=_scratch_base())
    try:
        tensors = {t["name"]: (Tensor(rank_ids=list(t["ranks"]), shape=list(t["shape"]), name=t["name"])
                              if t["shape"] is not None else Tensor(rank_ids=list(t["ranks"]), name=t["name"]))
                   for t in case["tensors"]}
        specs = {}
        for f in case["fmts"]:
            if f.get("omit") == "rank":        # a rank nobody binds may be missing from the spec altogether
                specs.setdefault(f["tensor"], {})
                continue
            sp = {"cbits": f["cbits"], "pbits": f["pbits"], "format": f.get("format", "C"),
                  "layout": _layout(case, f["tensor"], f["rank"])}
            for key in f.get("omit") or ():    # fields left to Format's defaults ("C", "contiguous")
                del sp[key]
            specs.setdefault(f["tensor"], {})[f["rank"]] = sp
        formats = {nm: Format(tensors[nm], specs.get(nm, {})) for nm in tensors}
        trace_fns, contents = {}, {}
        for k, t in enumerate(case["traces"]):
            share = t.get("file")
            if share is not None:
                fn = os.path.join(d, "t%d.csv" % share)
            else:
                fn = os.path.join(d, "t%d.csv" % k)
                _write_rows(fn, _header(t["header"]), rows_of(k))
            trace_fns[(t["tensor"], t["rank"], t["type"], t["access"])] = fn
        for fn in set(trace_fns.values()):
            contents[fn] = open(fn).read()
        if case["op"] == "buffet":
            bindings = [{"tensor": b["tensor"], "rank": b["rank"], "type": b["type"], "evict-on": b["evict_on"]}
                        for b in case["bindings"]]
            fun = Traffic.buffetTraffic
        else:
            bindings = [{"tensor": b["tensor"], "rank": b["rank"], "type": b["type"]} for b in case["bindings"]]
            fun = Traffic.cacheTraffic
        lr = {a: b for a, b in case["loop_ranks"]} if (case["loop_ranks"] or case.get("lr_dict")) else None
        args_before = (copy.deepcopy(bindings), dict(trace_fns))
        before = sorted(os.listdir(d))
        res = {}
        try:
            traffic, over = fun(bindings, formats, trace_fns, float("inf") if cap is None else cap,
                                case["ls"], loop_ranks=lr)
            res["traffic"] = sorted([t, a, v] for t, acc in traffic.items() for a, v in acc.items())
            res["over"] = over
        except Exception as e:  # a crash on a legal input is an observation
            res["err"] = H.err_class(e)
        res["clean"] = sorted(os.listdir(d)) == before
        res["args_kept"] = (bindings, trace_fns) == args_before
        if repeat and "err" not in res:
            try:
                t2, o2 = fun(bindings, formats, trace_fns, float("inf") if cap is None else cap,
                             case["ls"], loop_ranks=lr)
                again = (sorted([t, a, v] for t, acc in t2.items() for a, v in acc.items()), o2)
                res["repeat_ok"] = again == (res["traffic"], res["over"]) and t2 is not traffic \
                    and sorted(os.listdir(d)) == before
            except Exception:
                res["repeat_ok"] = False
        res["inputs_kept"] = all(os.path.exists(fn) and open(fn).read() == c for fn, c in contents.items())
        return res
    finally:
        shutil.rmtree(d, ignore_errors=True)


def _epl(case, b):
    for f in case["fmts"]:
        if f["tensor"] == b["tensor"] and f["rank"] == b["rank"]:
            bits = {"coord": f["cbits"], "payload": f["pbits"], "elem": f["cbits"] + f["pbits"]}[b["type"]]
            return case["ls"] // bits
    return 1


def _jitter(case, rng):
    """other positions on the same line (for every binding reading the trace) and on the same side
    of every declared shape"""
    shapes = sorted({s for t in case["tensors"] for s in (t["shape"] or ())})
    out = []
    for k, t in enumerate(case["traces"]):
        users = [u for j, u in enumerate(case["traces"]) if j == k or u.get("file") == k]
        keys = {(u["tensor"], u["rank"], u["type"]) for u in users}
        epls = [_epl(case, b) for b in case["bindings"]
                if (b["tensor"], b["rank"], b["type"]) in keys] or [1]
        rows = []
        for r in t["rows"]:
            p = r[-1]
            lo = max(p // e * e for e in epls)
            hi = min(p // e * e + e for e in epls)
            cands = [q for q in range(lo, hi) if all((q < s) == (p < s) for s in shapes)]
            rows.append(r[:-1] + [rng.choice(cands)])
        out.append(rows)
    return out


def _optimal_fills(lines, k):
    """brute force over ALL replacement decisions (bypass allowed): least number of misses"""
    from functools import lru_cache
    n = len(lines)

    @lru_cache(maxsize=None)
    def go(t, res):
        if t == n:
            return 0
        x = lines[t]
        if x in res:
            return go(t + 1, res)
        best = 1 + go(t + 1, res)                      # bypass
        if k > 0:
            if len(res) < k:
                best = min(best, 1 + go(t + 1, tuple(sorted(res + (x,)))))
            else:
                for v in res:
                    r2 = tuple(sorted([y for y in res if y != v] + [x]))
                    best = min(best, 1 + go(t + 1, r2))
        return best
    return go(0, ())


def _run_traffic(case):
    runs = [_call_traffic(case, cap, lambda k: case["traces"][k]["rows"], repeat=(j == 0))
            for j, cap in enumerate(case["caps"])]
    side = {}
    ok_runs = [r for r in runs if "err" not in r]
    side["temp_files_removed"] = all(r["clean"] for r in ok_runs)
    side["input_traces_untouched"] = all(r["inputs_kept"] for r in runs)
    side["bindings_and_trace_dict_unchanged"] = all(r["args_kept"] for r in runs)
    side["second_call_same_objects_same_result"] = all(r.get("repeat_ok", True) for r in runs)
    impl = {"runs": [{"err": r["err"]} if "err" in r else {"traffic": r["traffic"], "over": r["over"]} for r in runs],
            "jit": None}
    if case.get("jitter_seed") is not None:
        jrows = _jitter(case, random.Random(case["jitter_seed"]))
        if any(jrows[k] != t["rows"] for k, t in enumerate(case["traces"])):
            r = _call_traffic(case, case["caps"][0], lambda k: jrows[k])
            impl["jit"] = {"err": r["err"]} if "err" in r else {"traffic": r["traffic"], "over": r["over"]}
    # labelled TEST (not a theorem): optimality against every replacement decision on tiny traces
    bf = case.get("bruteforce")
    if bf is not None:
        ok = True
        for cap, r in zip(case["caps"], runs):
            if "err" in r or cap is None:
                continue
            fills = sum(v for _, a, v in r["traffic"] if a == "read") // case["ls"]
            ok = ok and fills == _optimal_fills(tuple(bf), cap // case["ls"])
        side["TEST_bruteforce_optimal_fills"] = ok
    case["impl"] = impl
    case["side"] = side


def run(case):
    op = case["op"]
    if op in ("buffet", "cache"):
        _run_traffic(case)
        return case
    d = tempfile.mkdtemp(prefix="c17-", dir=_scratch_base())
    try:
        {"filter": _run_filter, "combine": _run_combine, "nextuse": _run_nextuse}[op](case, d)
    finally:
        shutil.rmtree(d, ignore_errors=True)
    return case


# ---------------------------------------------------------------------------------------
# generators
# ---------------------------------------------------------------------------------------

def _case(op, tensors, bindings, traces, ls, caps, loop_ranks=(), bits=None, jitter_seed=None, ufmt=(),
          omit=None, **kw):
    """`ufmt`: the (tensor, rank) pairs declared with format "U" (the element footprint that sets the
    number of elements per line does not depend on the declared format)"""
    fmts = []
    for t in tensors:
        for r in t["ranks"]:
            cb, pb = (bits or {}).get((t["name"], r), (32, 32))
            fmts.append({"tensor": t["name"], "rank": r, "cbits": cb, "pbits": pb,
                         "format": "U" if (t["name"], r) in ufmt else "C"})
            om = (omit or {}).get((t["name"], r))
            if om:
                fmts[-1]["omit"] = om
    c = {"prop": PROP, "op": op, "tensors": tensors, "fmts": fmts, "loop_ranks": [list(x) for x in loop_ranks],
         "bindings": bindings, "traces": traces, "ls": ls, "caps": caps, "jitter_seed": jitter_seed}
    c.update(kw)
    return c


def _window_stamps(bits):
    """stamps (m, k) of a depth-2 trace: bit t says whether row t+1 opens a new M window"""
    m, k, out = 0, 0, [(0, 0)]
    for b in bits:
        if b:
            m, k = m + 1, 0
        else:
            k += 1
        out.append((m, k))
    return out


def _small_buffet(tier):
    """tensor B has the single rank K, iterated under M: a line is (pos,), the M-window splits the trace"""
    tens = [{"name": "B", "ranks": ["K"], "shape": [8]}]
    maxlen = 4 if tier == "quick" else 5
    for ev in ("root", "M"):
        b = [{"tensor": "B", "rank": "K", "type": "payload", "evict_on": ev}]
        for ln in range(0, maxlen + 1):
            for lines in itertools.product(range(3), repeat=ln):
                for bits in itertools.product((0, 1), repeat=max(ln - 1, 0)):
                    st = _window_stamps(bits)[:ln]
                    rows = [[m, k, m, p, p] for (m, k), p in zip(st, lines)]
                    tr = [{"tensor": "B", "rank": "K", "type": "payload", "access": "read",
                           "header": ["M", "K"], "rows": rows}]
                    yield _case("buffet", tens, b, tr, 32, [64], kind="small-read")
                    if 2 <= ln <= 3:   # the same over two-digit stamps / coordinates / positions (9, 10, 11)
                        rows2 = [[m + 8, k + 9, m + 8, p + 9, p + 9] for (m, k), p in zip(st, lines)]
                        tr2 = [dict(tr[0], rows=rows2)]
                        yield _case("buffet", [{"name": "B", "ranks": ["K"], "shape": [16]}], b, tr2, 32, [64],
                                    kind="small-read-wide")
    # reads and writes over an in-shape line (pos 0) and a staging line (pos 1, shape 1)
    tens = [{"name": "Z", "ranks": ["K"], "shape": [1]}]
    maxlen = 3 if tier == "quick" else 4
    for ev in ("root", "M", "K"):
        b = [{"tensor": "Z", "rank": "K", "type": "payload", "evict_on": ev}]
        for ln in range(1, maxlen + 1):
            for lines in itertools.product(range(2), repeat=ln):
                for rw in itertools.product((0, 1), repeat=ln):
                    if not any(rw):
                        continue
                    for bits in itertools.product((0, 1), repeat=ln - 1):
                        st = _window_stamps(bits)
                        rr = [[m, k, m, p, p] for (m, k), p, w in zip(st, lines, rw) if not w]
                        ww = [[m, k, m, p, p] for (m, k), p, w in zip(st, lines, rw) if w]
                        tr = [{"tensor": "Z", "rank": "K", "type": "payload", "access": "write",
                               "header": ["M", "K"], "rows": ww}]
                        if rr or ln % 2:
                            tr.append({"tensor": "Z", "rank": "K", "type": "payload", "access": "read",
                                       "header": ["M", "K"], "rows": rr})
                        yield _case("buffet", tens, b, tr, 32, [32], kind="small-rw")
                        if ln <= 2:   # shape only estimated: fine unless the binding is pinned (then rejected)
                            yield _case("buffet", [{"name": "Z", "ranks": ["K"], "shape": None}], b,
                                        copy.deepcopy(tr), 32, [32], kind="small-rw-estimated")


def _small_widths(tier):
    """elements per line = line_sz // footprint(type): every binding type x declared format U/C x
    cbits/pbits/line-size combinations, on a trace that walks positions 0..7 twice"""
    tens = [{"name": "A", "ranks": ["K"], "shape": [8]}]
    rows = [[t, p, p] for t, p in enumerate(list(range(8)) + [0, 3, 4, 7])]
    widths = (8, 16, 32) if tier == "quick" else (8, 16, 24, 32, 64)
    for ty in ("elem", "coord", "payload"):
        for fmt in ("U", "C"):
            for cb in widths:
                for pb in widths:
                    for ls in (32, 64, 96):
                        foot = {"elem": cb + pb, "coord": cb, "payload": pb}[ty]
                        if foot > ls:
                            continue
                        tr = [{"tensor": "A", "rank": "K", "type": ty, "access": "read", "header": ["K"], "rows": rows}]
                        uf = {("A", "K")} if fmt == "U" else ()
                        if fmt == "C" and cb == pb:     # the same with the keys left to Format's defaults
                            om = {("A", "K"): ["format"] + ([] if ty == "elem" else ["layout"])}
                            yield _case("buffet", tens, [{"tensor": "A", "rank": "K", "type": ty, "evict_on": "root"}],
                                        copy.deepcopy(tr), ls, [ls + 1], bits={("A", "K"): (cb, pb)}, omit=om,
                                        kind="small-widths-defaults")
                        yield _case("buffet", tens, [{"tensor": "A", "rank": "K", "type": ty, "evict_on": "root"}],
                                    tr, ls, [None], bits={("A", "K"): (cb, pb)}, ufmt=uf, kind="small-widths")
                        yield _case("cache", tens, [{"tensor": "A", "rank": "K", "type": ty}],
                                    copy.deepcopy(tr), ls, [ls, None], bits={("A", "K"): (cb, pb)}, ufmt=uf,
                                    kind="small-widths")


# line identities with two components whose decimal digits concatenate to the same string
COLLIDE = [(1, 12), (11, 2), (1, 11), (11, 1), (2, 10), (21, 0)]


def _small_collide(tier):
    """a line is (coordinate of the upper rank, position): every sequence of <= 3 accesses over lines that
    differ as tuples but not as concatenated text, for the next-use pass and for both policies"""
    tens = [{"name": "A", "ranks": ["M", "K"], "shape": [32, 32]}]
    maxlen = 3 if tier == "quick" else 4
    for ln in range(2, maxlen + 1):
        for pts in itertools.product(COLLIDE, repeat=ln):
            if len(set(pts)) < 2:
                continue
            yield {"prop": PROP, "op": "nextuse", "n": 2, "mask": [True, True], "epl": 1,
                   "rows": [[[t, 0, c, p, p], bool(t % 2)] for t, (c, p) in enumerate(pts)]}
            rows = [[t, 0, c, p, p] for t, (c, p) in enumerate(pts)]
            tr = [{"tensor": "A", "rank": "K", "type": "payload", "access": "read", "header": ["M", "K"], "rows": rows}]
            yield _case("buffet", tens, [{"tensor": "A", "rank": "K", "type": "payload", "evict_on": "root"}],
                        tr, 32, [None], kind="small-collide")
            yield _case("cache", tens, [{"tensor": "A", "rank": "K", "type": "payload"}],
                        copy.deepcopy(tr), 32, [32, None], kind="small-collide")


def _small_cache(tier):
    tens = [{"name": "B", "ranks": ["K"], "shape": [8]}]
    b = [{"tensor": "B", "rank": "K", "type": "payload"}]
    caps = [0, 32, 64, 96, 128, None]
    maxlen = 5 if tier == "quick" else 6
    for ln in range(0, maxlen + 1):
        for lines in itertools.product(range(3), repeat=ln):
            rows = [[t, p, p] for t, p in enumerate(lines)]
            tr = [{"tensor": "B", "rank": "K", "type": "payload", "access": "read", "header": ["K"], "rows": rows}]
            yield _case("cache", tens, b, tr, 32, caps, kind="small-read", bruteforce=list(lines))
            if 2 <= ln <= 4:
                tr2 = [dict(tr[0], rows=[[t + 8, p + 9, p + 9] for t, p in enumerate(lines)])]
                yield _case("cache", [{"name": "B", "ranks": ["K"], "shape": [16]}], b, tr2, 32, [32, 64, None],
                            kind="small-read-wide", bruteforce=list(lines))
    # stamp ties: every non-decreasing stamp pattern
    maxlen = 4 if tier == "quick" else 5
    for ln in range(2, maxlen + 1):
        for lines in itertools.product(range(3), repeat=ln):
            for bits in itertools.product((0, 1), repeat=ln - 1):
                if all(bits):
                    continue
                st, s = [0], 0
                for x in bits:
                    s += x
                    st.append(s)
                rows = [[t, p, p] for t, p in zip(st, lines)]
                tr = [{"tensor": "B", "rank": "K", "type": "payload", "access": "read", "header": ["K"], "rows": rows}]
                yield _case("cache", tens, b, tr, 32, [32, 64, 96], kind="small-tie", bruteforce=list(lines))
    # reads/writes over an in-shape and a staging (pinned) line
    tens = [{"name": "Z", "ranks": ["K"], "shape": [1]}]
    b = [{"tensor": "Z", "rank": "K", "type": "payload"}]
    maxlen = 4 if tier == "quick" else 5
    for ln in range(1, maxlen + 1):
        for lines in itertools.product(range(2), repeat=ln):
            for rw in itertools.product((0, 1), repeat=ln):
                if not any(rw):
                    continue
                rr = [[t, p, p] for t, (p, w) in enumerate(zip(lines, rw)) if not w]
                ww = [[t, p, p] for t, (p, w) in enumerate(zip(lines, rw)) if w]
                tr = [{"tensor": "Z", "rank": "K", "type": "payload", "access": "write", "header": ["K"], "rows": ww}]
                if rr or ln % 2:
                    tr.append({"tensor": "Z", "rank": "K", "type": "payload", "access": "read",
                               "header": ["K"], "rows": rr})
                yield _case("cache", tens, b, tr, 32, [0, 32, 64, None], kind="small-rw")
                if ln <= 2:
                    yield _case("cache", [{"name": "Z", "ranks": ["K"], "shape": None}], b,
                                copy.deepcopy(tr), 32, [32, None], kind="small-rw-estimated")


def _small_tools(tier):
    # filterTrace: depth-1 input with strictly increasing points, depth-1/2 filters (sorted)
    u = 4 if tier == "quick" else 5
    for inp in itertools.chain.from_iterable(itertools.combinations(range(u), r) for r in range(u + 1)):
        for r in range(0, 4):
            for fil in itertools.combinations_with_replacement(range(u), r):
                for nf in (1, 2):
                    rows_in = [[i, c, i] for i, c in enumerate(inp)]
                    rows_f = [[i, c, i] if nf == 1 else [i, i % 2, c, i % 3, i] for i, c in enumerate(fil)]
                    yield {"prop": PROP, "op": "filter", "n": 1, "nf": nf, "inp": rows_in, "fil": rows_f}
    # ... and over coordinates with different digit counts next to each other (numeric, not textual, order)
    wide = (2, 9, 10, 11, 100)
    for inp in itertools.chain.from_iterable(itertools.combinations(wide, r) for r in range(1, len(wide) + 1)):
        for r in range(1, 4):
            for fil in itertools.combinations_with_replacement(wide, r):
                for nf in (1, 2):
                    rows_in = [[i, c, i] for i, c in enumerate(inp)]
                    rows_f = [[i, c, i] if nf == 1 else [i, i % 2, c, (7 * i) % 12, i] for i, c in enumerate(fil)]
                    yield {"prop": PROP, "op": "filter", "n": 1, "nf": nf, "inp": rows_in, "fil": rows_f}
    # combine: all merges of short sorted stamp lists over {0,1,2}
    for nr in range(0, 4):
        for rs in itertools.combinations_with_replacement(range(3), nr):
            for nw in range(0, 4):
                for ws in itertools.combinations_with_replacement(range(3), nw):
                    reads = [[s, 10 + i, i] for i, s in enumerate(rs)]
                    writes = [[s, 20 + i, i] for i, s in enumerate(ws)]
                    yield {"prop": PROP, "op": "combine", "n": 1, "reads": reads, "writes": writes}
                    if nw == 0:
                        yield {"prop": PROP, "op": "combine", "n": 1, "reads": reads, "writes": None}
                    if nr == 0 and nw > 0:
                        yield {"prop": PROP, "op": "combine", "n": 1, "reads": None, "writes": writes}
    for rs in itertools.chain.from_iterable(itertools.combinations((2, 9, 10, 11), r) for r in range(0, 4)):
        for ws in itertools.chain.from_iterable(itertools.combinations((2, 9, 10, 11), r) for r in range(1, 4)):
            yield {"prop": PROP, "op": "combine", "n": 1, "reads": [[s, 10 + i, i] for i, s in enumerate(rs)],
                   "writes": [[s, 20 + i, i] for i, s in enumerate(ws)]}
    # next use: every sequence of <= 5 positions over 0..3 with 1 or 2 elements per line
    ml = 4 if tier == "quick" else 5
    for ln in range(0, ml + 1):
        for ps in itertools.product(range(4), repeat=ln):
            for epl in (1, 2):
                rows = [[[t, p, p], bool((t + p) % 2)] for t, p in enumerate(ps)]
                yield {"prop": PROP, "op": "nextuse", "n": 1, "rows": rows, "mask": [True], "epl": epl}
                if ln <= 4:     # the same with two-digit positions / stamps (9, 10, 11, 12)
                    rows = [[[8 + t, 9 + p, 9 + p], bool((t + p) % 2)] for t, p in enumerate(ps)]
                    yield {"prop": PROP, "op": "nextuse", "n": 1, "rows": rows, "mask": [True], "epl": epl}


NAMES = ["M", "K", "N"]


def _gen_rows(rng, n, length, coord_u, pos_u, p_tie, coherent=True):
    """`length` rows of depth n with lexicographically non-decreasing stamps"""
    stamp = [0] * n
    step = rng.choice(((1, 1, 2), (1, 1, 2), (1, 4, 9)))       # stamps also cross 9 -> 10, 99 -> 100
    memo = {}
    rows = []
    for t in range(length):
        if t > 0 and rng.random() >= p_tie:
            j = min(n - 1, int(rng.random() ** 0.5 * n))      # deeper levels move more often
            stamp = stamp[:j] + [stamp[j] + rng.choice(step)] + [0] * (n - j - 1)
        coords = []
        for j in range(n):
            if coherent and j < n - 1:
                key = tuple(stamp[:j + 1])
                if key not in memo:
                    memo[key] = rng.randrange(coord_u)
                coords.append(memo[key])
            else:
                coords.append(rng.randrange(coord_u))
        rows.append(list(stamp) + coords + [rng.randrange(pos_u)])
    return rows


def _random_traffic(rng, op, tier):
    L = rng.choice((1, 2, 2, 3, 3))
    order = NAMES[:L]
    nt = rng.choice((1, 1, 2))
    tensors, loop_ranks = [], []
    for ti in range(nt):
        name = "AB"[ti]
        sub = [r for r in order if rng.random() < 0.7]
        if not sub:
            sub = [rng.choice(order)]
        own = list(sub)
        if rng.random() < 0.2:
            j = rng.randrange(len(sub))
            alias = "X%d" % ti
            own[j] = alias
            loop_ranks.append((alias, sub[j]))
        tensors.append({"name": name, "ranks": own, "shape": [rng.choice((2, 3, 4, 6, 11, 13)) for _ in own],
                        "_loop": sub, "_estimated": rng.random() < 0.2})
    ls = rng.choice((32, 64, 128, 48, 100))
    bits = {}
    for t in tensors:
        for r in t["ranks"]:
            w = [x for x in (8, 16, 32, 64) if x <= ls // 2]
            bits[(t["name"], r)] = (rng.choice(w), rng.choice(w))
    bindings, traces = [], []
    nb = rng.choice((1, 1, 2, 3))
    used, mode = set(), {}
    for _ in range(nb):
        t = rng.choice(tensors)
        j = rng.randrange(len(t["ranks"]))
        rk, lrk = t["ranks"][j], t["_loop"][j]
        md = mode.setdefault((t["name"], rk), rng.choice(("cp", "cp", "elem")))
        ty = "elem" if md == "elem" else rng.choice(("coord", "payload"))
        if (t["name"], rk, ty) in used:
            continue
        used.add((t["name"], rk, ty))
        n = order.index(lrk) + 1
        b = {"tensor": t["name"], "rank": rk, "type": ty}
        if op == "buffet":
            b["evict_on"] = rng.choice(["root"] + order[:n] + ([rk] if rk != lrk else []))
        bindings.append(b)
        acc = rng.choice(("read", "read", "both", "both", "write"))
        length = rng.choice((0, 1, 3, 5, 8, 12)) if tier == "quick" else rng.choice((0, 2, 6, 12, 20, 30))
        shape = t["shape"][j]
        rows = _gen_rows(rng, n, length, rng.choice((1, 2, 3, 12, 25)), shape + (2 if acc != "read" else 0),
                         rng.choice((0.0, 0.0, 0.15, 0.4)), coherent=rng.random() < 0.7)
        hdr = order[:n]
        if acc == "read":
            traces.append({"tensor": t["name"], "rank": rk, "type": ty, "access": "read", "header": hdr, "rows": rows})
        elif acc == "write":
            traces.append({"tensor": t["name"], "rank": rk, "type": ty, "access": "write", "header": hdr, "rows": rows})
        else:
            wmask = [rng.random() < 0.5 for _ in rows]
            pair = [{"tensor": t["name"], "rank": rk, "type": ty, "access": "read", "header": hdr,
                     "rows": [r for r, w in zip(rows, wmask) if not w]},
                    {"tensor": t["name"], "rank": rk, "type": ty, "access": "write", "header": hdr,
                     "rows": [r for r, w in zip(rows, wmask) if w]}]
            if rng.random() < 0.5:
                pair.reverse()
            traces.extend(pair)
    # a coord and a payload binding of one rank may read the very same file (as the test-suite does)
    for b in list(bindings):
        if b["type"] == "coord" and rng.random() < 0.5:
            twin = (b["tensor"], b["rank"], "payload")
            if twin not in used:
                used.add(twin)
                nb2 = dict(b, type="payload")
                bindings.append(nb2)
                for k, tr in enumerate(list(traces)):
                    if (tr["tensor"], tr["rank"], tr["type"]) == (b["tensor"], b["rank"], "coord"):
                        traces.append(dict(tr, type="payload", file=k if "file" not in tr else tr["file"]))
    bound = {(b["tensor"], b["rank"]) for b in bindings}
    omit = {}
    for t in tensors:
        for r in t["ranks"]:
            if (t["name"], r) not in bound and rng.random() < 0.3:
                omit[(t["name"], r)] = "rank"
            elif rng.random() < 0.3:
                keys = ["format"] if rng.random() < 0.6 else []
                if mode.get((t["name"], r)) != "elem" and rng.random() < 0.6:
                    keys.append("layout")
                if keys:
                    omit[(t["name"], r)] = keys
    for t in tensors:
        del t["_loop"]
        # a tensor whose shape is only estimated (nothing declared); a pinned binding then is a rejection
        if t.pop("_estimated"):
            t["shape"] = None
    nlines = 6
    if op == "buffet":
        caps = [rng.choice((0, 1, ls, ls + ls // 2, 2 * ls, 5 * ls - 1, 5 * ls, None))]
    else:
        caps = sorted(set(rng.sample([0, ls // 2, ls, 2 * ls, 3 * ls, 4 * ls, nlines * ls, 2 * ls + ls // 2], 3)))
        if rng.random() < 0.5:
            caps.append(None)
    ufmt = {(t["name"], r) for t in tensors for r in t["ranks"] if rng.random() < 0.4}
    return _case(op, tensors, bindings, traces, ls, caps, loop_ranks=loop_ranks, bits=bits, ufmt=ufmt, omit=omit,
                 jitter_seed=rng.randrange(1 << 30), kind="random", lr_dict=rng.random() < 0.3)


def _random_tools(rng, tier):
    which = rng.choice(("filter", "combine", "nextuse"))
    if which == "filter":
        n = rng.choice((1, 2))
        nf = n + rng.choice((0, 1))
        u = rng.choice((3, 3, 12, 25))
        pts = sorted(set(tuple(rng.randrange(u) for _ in range(n)) for _ in range(rng.randrange(7))))
        fpts = sorted(tuple(rng.randrange(u) for _ in range(nf)) for _ in range(rng.randrange(9)))
        inp = [[i] * n + list(p) + [rng.randrange(5)] for i, p in enumerate(pts)]
        fil = [[i] * nf + list(p) + [rng.randrange(5)] for i, p in enumerate(fpts)]
        return {"prop": PROP, "op": "filter", "n": n, "nf": nf, "inp": inp, "fil": fil}
    if which == "combine":
        n = rng.choice((1, 2, 3))
        rows = _gen_rows(rng, n, rng.randrange(10), rng.choice((3, 12)), 4, 0.3)
        w = [rng.random() < 0.5 for _ in rows]
        return {"prop": PROP, "op": "combine", "n": n, "reads": [r for r, x in zip(rows, w) if not x],
                "writes": [r for r, x in zip(rows, w) if x]}
    n = rng.choice((1, 2, 3))
    rows = _gen_rows(rng, n, rng.randrange(12), rng.choice((2, 12, 25)), rng.choice((6, 14, 25)), 0.2)
    mask = [rng.random() < 0.6 for _ in range(n - 1)] + [True]
    return {"prop": PROP, "op": "nextuse", "n": n, "rows": [[r, rng.random() < 0.4] for r in rows],
            "mask": mask, "epl": rng.choice((1, 2, 4))}


def _regressions():
    """fixed witnesses of the defects found while building the check (always run, so every open entry of
    known_findings.json is exercised by every run)"""
    rd = lambda t, r, ty, hdr, rows: {"tensor": t, "rank": r, "type": ty, "access": "read", "header": hdr, "rows": rows}
    wr = lambda t, r, ty, hdr, rows: {"tensor": t, "rank": r, "type": ty, "access": "write", "header": hdr, "rows": rows}
    # (fixed) two lines of one binding whose next uses carry the same stamp, in swapped order used to raise
    tens = [{"name": "A", "ranks": ["M"], "shape": [8]}]
    yield _case("cache", tens, [{"tensor": "A", "rank": "M", "type": "payload"}],
                [rd("A", "M", "payload", ["M"], [[0, 1, 1], [0, 0, 0], [1, 0, 0], [1, 1, 1]])],
                32, [0, 32, 64, 96], kind="regression")
    # F3: X Y X Y X with the middle X,Y sharing a stamp, one line of capacity -> 4 fills, optimum 3
    yield _case("cache", tens, [{"tensor": "A", "rank": "M", "type": "payload"}],
                [rd("A", "M", "payload", ["M"], [[0, 0, 0], [1, 1, 1], [2, 0, 0], [2, 1, 1], [3, 0, 0]])],
                32, [32], kind="regression", bruteforce=[0, 1, 0, 1, 0])
    # (fixed a543495) shapes[] used to be computed from the LAST binding's tensor/rank (buffet and cache)
    tens = [{"name": "Z", "ranks": ["M", "N"], "shape": [4, 2]}]
    tr = [wr("Z", "M", "payload", ["M"], [[0, 0, 0], [1, 3, 3]]), rd("Z", "N", "payload", ["M", "N"], [[0, 0, 0, 0, 0]])]
    yield _case("buffet", tens, [{"tensor": "Z", "rank": "M", "type": "payload", "evict_on": "root"},
                                 {"tensor": "Z", "rank": "N", "type": "payload", "evict_on": "M"}],
                tr, 32, [64], kind="regression")
    yield _case("cache", tens, [{"tensor": "Z", "rank": "M", "type": "payload"},
                                {"tensor": "Z", "rank": "N", "type": "payload"}],
                copy.deepcopy(tr), 32, [64], kind="regression")
    # (fixed) closing a pinned (staging) line used to pop the list element of ANOTHER binding with the same line tuple
    tens = [{"name": "A", "ranks": ["K"], "shape": [2]}]
    yield _case("cache", tens, [{"tensor": "A", "rank": "K", "type": "coord"}, {"tensor": "A", "rank": "K", "type": "payload"}],
                [rd("A", "K", "coord", ["M", "K"], [[0, 1, 1, 0, 0], [1, 7, 2, 2, 1]]),
                 wr("A", "K", "payload", ["M", "K"], [[0, 0, 0, 0, 3], [0, 2, 0, 0, 1]])],
                128, [None], bits={("A", "K"): (16, 8)}, kind="regression")
    # F5: pinned staging lines overflow a too small cache: fewer fills at capacity 0 than at one line
    tens = [{"name": "A", "ranks": ["M"], "shape": [6]}]
    yield _case("cache", tens, [{"tensor": "A", "rank": "M", "type": "coord"}, {"tensor": "A", "rank": "M", "type": "payload"}],
                [rd("A", "M", "coord", ["M"], [[4, 1, 7]]), wr("A", "M", "coord", ["M"], [[1, 2, 3], [1, 0, 7]]),
                 dict(rd("A", "M", "payload", ["M"], [[4, 1, 7]]), file=0),
                 dict(wr("A", "M", "payload", ["M"], [[1, 2, 3], [1, 0, 7]]), file=1)],
                128, [0, 128], bits={("A", "M"): (16, 16)}, kind="regression")


def gen(seed, tier):
    yield from _regressions()
    yield from _small_tools(tier)
    yield from _small_buffet(tier)
    yield from _small_cache(tier)
    yield from _small_widths(tier)
    yield from _small_collide(tier)
    rng = random.Random(seed)
    nrand = 2500 if tier == "quick" else 40000
    for i in range(nrand):
        r = i % 10
        if r < 4:
            yield _random_traffic(rng, "buffet", tier)
        elif r < 8:
            yield _random_traffic(rng, "cache", tier)
        else:
            yield _random_tools(rng, tier)


# ---------------------------------------------------------------------------------------
# classification
# ---------------------------------------------------------------------------------------

def nontrivial(case, verdict):
    t = set(verdict.get("tags", []))
    if case["op"] in ("buffet", "cache"):
        return "reuse" in t
    if case["op"] == "filter":
        return "dropped" in t and "empty-out" not in t
    if case["op"] == "combine":
        return not ({"empty-reads", "empty-writes"} & t)
    return "reuse" in t


def signature(case, verdict, failed):
    """A known class is recognised only when the model (which mirrors the defect) predicts exactly the
    implementation's output (`agree`) and the driver attributes the deviation to that defect; anything
    else keeps its own signature."""
    t = set(verdict.get("tags", []))
    op = case["op"]
    fs = sorted(failed)
    kinds = sorted(x[5:] for x in t if x.startswith("fail:"))
    agree = verdict.get("agree", False)
    crash = "crash" in kinds
    if op == "cache" and agree and "spec" in fs and set(fs) <= {"spec", "TEST_bruteforce_optimal_fills"} \
            and "jitter" not in kinds:
        if "explained:stamp-tie" in t and not crash:
            return "cache:suboptimal:stamp-tie"
    if op in ("buffet", "cache") and agree and fs == ["spec"] and not crash and "jitter" not in kinds:
        if kinds == ["monotone"] and "overflow" in t and "MODEL-NOT-SPEC" not in t:
            return "cache:nonmonotone:overflow"
    return op + ":" + "/".join(fs + kinds) + ("" if agree else ":model-disagrees")


def shrink_candidates(case):
    if case["op"] in ("buffet", "cache"):
        for k, t in enumerate(case["traces"]):
            if t.get("file") is not None:
                continue
            for i in range(len(t["rows"])):
                c = copy.deepcopy(case)
                del c["traces"][k]["rows"][i]
                for t2 in c["traces"]:
                    if t2.get("file") == k:
                        t2["rows"] = c["traces"][k]["rows"]
                yield c
        if len(case["caps"]) > 1:
            for i in range(len(case["caps"])):
                c = copy.deepcopy(case)
                del c["caps"][i]
                yield c
        if len(case["bindings"]) > 1:
            for i, b in enumerate(case["bindings"]):
                key = (b["tensor"], b["rank"], b["type"])
                c = copy.deepcopy(case)
                del c["bindings"][i]
                keep = [k for k, t in enumerate(c["traces"]) if (t["tensor"], t["rank"], t["type"]) != key]
                if any(t.get("file") is not None for t in c["traces"]):
                    continue
                c["traces"] = [c["traces"][k] for k in keep]
                yield c
        if case.get("jitter_seed") is not None:
            c = copy.deepcopy(case)
            c["jitter_seed"] = None
            yield c
    else:
        for key in ("inp", "fil", "reads", "writes", "rows"):
            if isinstance(case.get(key), list):
                for i in range(len(case[key])):
                    c = copy.deepcopy(case)
                    del c[key][i]
                    yield c


def extra_evidence(results):
    ops, kinds = {}, {}
    tests = 0
    for c, v in results:
        ops[c["op"]] = ops.get(c["op"], 0) + 1
        k = c.get("kind", "tool")
        kinds[k] = kinds.get(k, 0) + 1
        if "TEST_bruteforce_optimal_fills" in (c.get("side") or {}):
            tests += 1
    return {"ops": ops, "kinds": kinds,
            "labelled_tests": {"bruteforce_optimal_fills_cases": tests,
                               "note": "optimality over ALL replacement decisions and monotonicity in the capacity are "
                                       "checked by enumeration on these cases; they are tests, not theorems"},
            "side_observations": ["temp_files_removed: directory listing after the call == before",
                                  "input_traces_untouched"]}
