"""C06 — kernel results do not depend on the dataflow used to compute them.

A case is a *program*: a sum-of-products expression (operands with their index variables, the
output's index variables), a loop order, an optional uniform tiling of some index variables and an
intersection style.  `render` turns it into Python source in the library's idiom

    for m, (z_n, a_k) in z_m << a_m:
        for k, (a_val, b_n) in a_k & b_k:
            for n, (z_ref, b_val) in z_n << b_n:
                z_ref += a_val * b_val

which is exec'd against the real library with the operands tiled (`Tensor.splitUniform`) and
swizzled (`Tensor.swizzleRanks`) to the loop order.  The Lean driver runs the model of the same
pipeline (split -> swizzle -> loop nest built from the C04/C05 models) and evaluates the dense
einsum of the *original* operands against the content of the implementation's output.

Loop variables are numbered 2*v (index variable v, or its lower half `v.0` when v is tiled) and
2*v+1 (the upper half `v.1`)."""
import random, itertools
from harness import common as H

PROP = "C06"
STYLES = ("and", "andr", "andh", "andi", "tf", "lf", "lff")
NEST = ("andr", "andh", "andi")          # differ from "and" only where three operands are co-iterated
RULE = ("cases = (expression: 1-3 operands over 1-3 index variables, every variable in some operand, any subset "
        "of the variables as output; loop order: every permutation of the loop variables; tiling: any subset of "
        "the variables split uniformly with steps 1..n+1, the two halves placed anywhere in the loop order; "
        "intersection style: (a & b) & c | a & (b & c) | a & bc with bc = b & c hoisted out of the loops | "
        "Fiber.intersection two-finger | leader-follower | leader-follower with an explicit emptiness filter; operand "
        "tensors with a declared shape or WITHOUT one (estimated rank shapes = the active ranges the tiling clips to); "
        "operand trees incl. explicit zeros, empty sub-fibers, empty operands; set-up variants that must not change "
        "the result: format U on any subset of the operand / output ranks (Tensor.setFormat, or a free fiber's own rank "
        "attributes), per-operand declared shapes larger than needed, fibers built with default 7 inside tensors of default "
        "0, values written as floats / bools, operand objects already used by an earlier run, the program executed twice "
        "into the same output (2 x dense), coordinates 0, 9, 10, 11, 100; NON-INTEGRAL operand values v/4 (exact dyadic "
        "floats) compared through multilinearity: result * 4**k = the integer result on the values v; the tiling of a rank "
        "requested as `T / parts` (partition count) instead of splitUniform(step); two-kernel PIPELINES in which the output "
        "object of the first kernel is operand 0 of the second, tiled / swizzled there; operands re-ordered to the loop "
        "order with Tensor.swapRanks (depth 0 and 1) BEFORE the tiling, non-square, instead of swizzleRanks after it). small scope "
        "(seed-independent): every expression shape x every loop order x every style on a fixed operand set, and "
        "every pair of leaf fibers over 3 coordinates x {absent, 0, 1, -1} for dot / element-wise / accumulate; every "
        "triple of leaf fibers over 2 coordinates for the right-nested / hoisted three-factor product; every 2-row 0/1 "
        "matrix over 3 columns for Z_m = sum_k A_mk B_k C_k with the m-invariant factors hoisted (untiled and K tiled); "
        "every 2-row 0/1 matrix over 4 columns without declared shape for a K-tiled matrix-vector product. "
        "random: operand values from the seed. non-trivial = the dense result has a non-zero entry or a product "
        "cancels, and at least one co-iteration had two participants or the output was populated")


# ---------------------------------------------------------------------------------------
# expressions
# ---------------------------------------------------------------------------------------

def _subsets(vs):
    for r in range(1, len(vs) + 1):
        for s in itertools.combinations(vs, r):
            yield list(s)


def expressions(max_vars=3, max_ops=3):
    """every expression shape: (nvars, operand rank-sets, output set), operands as sorted multisets,
    every variable in some operand, variables used are exactly 0..nvars-1"""
    out = []
    for nv in range(1, max_vars + 1):
        vs = list(range(nv))
        rsets = list(_subsets(vs))
        for k in range(1, max_ops + 1):
            for combo in itertools.combinations_with_replacement(range(len(rsets)), k):
                ops = [rsets[i] for i in combo]
                if set(v for o in ops for v in o) != set(vs):
                    continue
                for r in range(0, nv + 1):
                    for o in itertools.combinations(vs, r):
                        out.append((nv, ops, list(o)))
    return out


NAMED = {
    "dot": (1, [[0], [0]], []),
    "elementwise": (1, [[0], [0]], [0]),
    "matvec": (2, [[0, 1], [1]], [0]),
    "matmul": (3, [[0, 1], [1, 2]], [0, 2]),
    "rowsum": (2, [[0, 1]], [0]),
    "colsum": (2, [[0, 1]], [1]),
    "total": (2, [[0, 1]], []),
    "copy": (2, [[0, 1]], [0, 1]),
    "outer": (2, [[0], [1]], [0, 1]),
    "triple": (1, [[0], [0], [0]], []),
    "mttkrp-like": (3, [[0, 1, 2], [1], [2]], [0]),
    "sddmm-like": (3, [[0, 2], [0, 1], [1, 2]], [0, 2]),
}


def loop_vars(nv, tiles):
    t = dict(tiles)
    lv = []
    for v in range(nv):
        if v in t:
            lv += [2 * v + 1, 2 * v]
        else:
            lv.append(2 * v)
    return lv


def lname(l, tiles):
    v = l // 2
    if v in dict(tiles):
        return f"{v}.{l % 2}"
    return str(v)


def _perm(rng, xs):
    xs = list(xs)
    rng.shuffle(xs)
    return xs


def mk_case(nv, ops, out, order, tiles, style, n, trees, tag="", declared=True):
    """declared: the operand tensors are built with shape=[n]*d; otherwise without a shape (the
    library estimates the rank shapes, which become the active ranges the tiling clips to)"""
    return {"prop": PROP, "nvars": nv,
            "ops": [{"ranks": list(r), "t": t} for r, t in zip(ops, trees)],
            "out": list(out), "order": list(order), "tiles": [list(x) for x in tiles],
            "style": style, "n": n, "tag": tag, "declared": bool(declared)}


def _widen(rng, c):
    """variants of HOW the same program is set up and run (they must not change its result):
    rank formats, declared shapes, fiber-level defaults, value kinds, reuse of the operand objects"""
    var = {}
    k = len(c["ops"])
    opranks, zranks = plan(c)
    r = rng.random
    if r() < 0.3:
        var["fmtU"] = [[l for l in t if r() < 0.5] for t in opranks]
        if "univ" in c:     # shape 101: keep a single uncompressed rank (nested ones cost 101**k iterations)
            flat = [(i, l) for i, t in enumerate(var["fmtU"]) for l in t][:1]
            var["fmtU"] = [[l for (j, l) in flat if j == i] for i in range(len(opranks))]
    if zranks and r() < 0.15 and "univ" not in c:
        var["zU"] = [l for l in zranks if r() < 0.6]
    if c["declared"] and not c.get("tdiv") and r() < 0.2:
        var["shapes"] = [c["n"] + rng.choice([0, 2, 5]) for _ in range(k)]
    if r() < 0.1:
        var["fdefault"] = 7
    if r() < 0.15:
        var["reps"] = 2
    if r() < 0.15:
        var["warm"] = True
    vk = rng.choice(["int"] * 4 + ["float", "bool", "quarter", "quarter"])
    if vk != "int":
        var["vkind"] = vk
    if not c["tiles"] and all(len(o["ranks"]) == 1 for o in c["ops"]) and r() < 0.3:
        var["bare"] = True
        var.pop("fdefault", None)   # a free fiber's own default IS its default: keep it 0 (sum of products)
    if var:
        c["var"] = var
    return c


def _with_swaps(c):
    """re-order every operand to the loop order with Tensor.swapRanks (adjacent swaps, any depth) BEFORE
    it is tiled, instead of one swizzleRanks after the tiling"""
    order = c["order"]

    def pos(v):
        return min(order.index(l) for l in (2 * v, 2 * v + 1) if l in order)
    for o in c["ops"]:
        if o.get("prev") or len(o["ranks"]) < 2:
            continue
        cur, sw = list(o["ranks"]), []
        for i in range(len(cur)):
            for j in range(len(cur) - 1 - i):
                if pos(cur[j]) > pos(cur[j + 1]):
                    cur[j], cur[j + 1] = cur[j + 1], cur[j]
                    sw.append(j)
        if sw:
            o["swaps"] = sw
    return c


def _to_tdiv(c, parts_by_v):
    """request the tilings of the listed (already tiled) variables as `T / parts`: the library then
    takes step = ceil(declared shape / parts); needs the same declared shape on all operands"""
    n = c["n"]
    d = dict(parts_by_v)
    c["tdiv"] = [[v, p] for v, p in parts_by_v]
    c["tiles"] = [[v, (n + d[v] - 1) // d[v]] if v in d else [v, st] for v, st in c["tiles"]]
    c["declared"] = True
    return c


def mk_then(first, nv, ops, out, order, tiles, style, trees):
    """second kernel of a pipeline: its operand 0 (ranks ops[0]) is the OUTPUT OBJECT of `first`"""
    t = mk_case(nv, ops, out, order, tiles, style, first["n"], [None] + list(trees), "then")
    del t["prop"]
    t["ops"][0] = {"ranks": list(ops[0]), "prev": True}
    if "univ" in first:
        t["univ"] = first["univ"]
    first["then"] = t
    return first


def _rand_then(rng, c):
    """a random second kernel over the first one's output (and possibly one more operand)"""
    _, zr = plan(c)
    k = len(zr)
    n = c["n"] if "univ" not in c else len(c["univ"])
    op0 = list(range(k))
    nv = k + (1 if rng.random() < 0.3 else 0)
    ops, trees = [op0], []
    if nv > k or rng.random() < 0.7:
        extra = [v for v in range(nv) if v >= k or rng.random() < 0.6] or [0]
        ops.append(_perm(rng, extra))
        t = _rand_tree(rng, len(extra), n)
        if "univ" in c:
            t = _remap(t, len(extra), c["univ"])
        trees.append(t)
    out = [v for v in range(nv) if rng.random() < 0.5]
    tiles = [[v, rng.randrange(1, c["n"] + 2) if "univ" not in c else rng.choice([1, 2, 9, 10, 11, 50, 101])]
             for v in range(nv) if rng.random() < 0.5]
    order = _perm(rng, loop_vars(nv, tiles))
    return mk_then(c, nv, ops, out, order, tiles, rng.choice(STYLES), trees)


def _remap(tree, depth, cmap):
    if depth == 1:
        return [[cmap[c], v] for c, v in tree]
    return [[cmap[c], _remap(sub, depth - 1, cmap)] for c, sub in tree]


CMAP = [0, 9, 10, 11, 100]          # multi-digit coordinates: 9 < 10 < 11 < 100 numerically, not as strings


def _sparse_coords(c):
    """the same program over the coordinates 0, 9, 10, 11, 100 (shape 101 / largest coordinate + 1)"""
    k = c["n"]
    cm = CMAP[:k]
    for o in c["ops"]:
        o["t"] = _remap(o["t"], len(o["ranks"]), cm)
    c["univ"] = cm
    c["n"] = cm[-1] + 1
    return c


def _rand_tree(rng, depth, n, sparse=None):
    p_abs = rng.choice([0.2, 0.4, 0.6]) if sparse is None else sparse
    return H.gen_tree(rng, depth, n, pool=(1, 2, -1, -2, 3), dflt=0, p_absent=p_abs, p_default=0.12,
                      p_emptysub=0.1, p_alldefault=0.06)


def gen(seed, tier):
    exprs = expressions()
    quick = tier == "quick"
    fixed = random.Random(12345)          # seed-independent part
    # --- 1. every expression shape x every loop order (untiled) x every style, fixed operand set
    for nv, ops, out in exprs:
        orders = list(itertools.permutations(loop_vars(nv, [])))
        for oi, order in enumerate(orders):
            for si, style in enumerate(STYLES):
                if style in NEST and len(ops) < 3:
                    continue
                if quick and (oi + si) % 3 and nv == 3:
                    continue
                n = 3
                trees = [_rand_tree(fixed, len(r), n) for r in ops]
                yield mk_case(nv, [_perm(fixed, r) for r in ops], out, order, [], style, n, trees, "shape")
    # --- 2. small scope: all pairs of leaf fibers for dot / elementwise / accumulate-into-vector
    vals = [0, 1, -1]
    fibs = list(H.all_leaf_fibers(3, vals))
    for ia, a in enumerate(fibs):
        for ib, b in enumerate(fibs):
            for si, style in enumerate(("and", "tf", "lf", "lff")):
                if not quick or (ia + ib + si) % 4 == 0:
                    yield mk_case(1, [[0], [0]], [], [0], [], style, 3, [a, b], "dot-exh")
                if not quick or (ia + ib + si) % 4 == 2:
                    yield mk_case(1, [[0], [0]], [0], [0], [], style, 3, [a, b], "ew-exh")
    # cancellation to zero inside a reduction that is outer to the output loop: Z_m = sum_k A_km
    cols = list(H.all_leaf_fibers(2, [0, 1, -1]))
    for r0 in cols:
        for r1 in cols:
            for r2 in (cols if not quick else cols[::2]):
                t = [[k, r] for k, r in enumerate((r0, r1, r2))]
                for order in ([0, 2], [2, 0]):
                    yield mk_case(2, [[0, 1]], [1], order, [], "and", 3, [t], "cancel-exh")
    # three factors on one rank, every way of nesting the intersections: all triples over 2 coordinates
    small = list(H.all_leaf_fibers(2, [1, -1]))
    for a in small:
        for b in small:
            for c in small:
                for style in NEST:
                    yield mk_case(1, [[0], [0], [0]], [], [0], [], style, 2, [a, b, c], "nest-exh")
    # the m-invariant factors co-iterated outside the m loop: Z_m = sum_k A_mk B_k C_k, untiled and K tiled
    rows = list(H.all_leaf_fibers(3, [1]))
    vecs = [[[0, 1], [1, 2], [2, 1]], [[0, 2], [2, -1]], [[1, 1], [2, 3]]]
    for i0, r0 in enumerate(rows):
        for i1, r1 in enumerate(rows):
            A = [[m, r] for m, r in enumerate((r0, r1)) if r]
            for vi, b in enumerate(vecs):
                c = vecs[(vi + i0 + i1) % 3]
                style = NEST[(i0 + i1 + vi) % 3]
                yield mk_case(2, [[0, 1], [1], [1]], [0], [0, 2], [], style, 3, [A, b, c], "hoist-exh")
                if not quick or (i0 + i1 + vi) % 2 == 0:
                    yield mk_case(2, [[0, 1], [1], [1]], [0], [0, 3, 2], [[1, 2]], style, 3, [A, b, c], "hoist-exh")
    # operands WITHOUT a declared shape, the reduction rank tiled: every 2-row pattern over 4 columns
    # (the rows reach different maximal coordinates) x every step
    rows4 = list(H.all_leaf_fibers(4, [1]))
    bvec = [[k, k + 1] for k in range(4)]
    for i0, r0 in enumerate(rows4):
        for i1, r1 in enumerate(rows4):
            if not r0 or not r1:
                continue
            if quick and (i0 + i1) % 2 == 1:
                continue
            A = [[0, r0], [1, r1]]
            step = 1 + (i0 + 2 * i1) % 4
            yield mk_case(2, [[0, 1], [1]], [0], [0, 3, 2], [[1, step]], "and", 4, [A, bvec], "estim-exh", declared=False)
    # rank formats: every choice of "U" on the ranks of the operands and of the output, for small kernels
    fa = [[0, 2], [2, -1]]
    fb = [[1, 3], [2, 1]]
    fA = [[0, [[1, 2]]], [2, [[0, 1], [2, -1]]]]
    fB = [[0, [[0, 1]]], [1, [[1, 1], [2, 2]]], [2, [[0, 3]]]]
    fmt_progs = [(1, [[0], [0]], [], [0], [fa, fb]), (1, [[0], [0]], [0], [0], [fa, fb]),
                 (2, [[0, 1], [1]], [0], [0, 2], [fA, fb]), (2, [[0, 1], [1]], [0], [2, 0], [fA, fb]),
                 (3, [[0, 1], [1, 2]], [0, 2], [0, 2, 4], [fA, fB]), (3, [[0, 1], [1, 2]], [0, 2], [2, 4, 0], [fA, fB])]
    fi = 0
    for nv, ops, out, order, trees in fmt_progs:
        base = mk_case(nv, ops, out, order, [], "and", 3, trees, "fmt-exh")
        opr, zr = plan(base)
        slots = [(i, l) for i, t in enumerate(opr) for l in t] + [("z", l) for l in zr]
        for mask in range(1, 2 ** len(slots)):
            fi += 1
            if quick and len(slots) > 4 and fi % 2:
                continue
            chosen = [slots[j] for j in range(len(slots)) if mask >> j & 1]
            for si, style in enumerate(("and", "tf", "lf", "lff")):
                if quick and len(slots) > 3 and (fi + si) % 2:
                    continue
                c = mk_case(nv, ops, out, order, [], style, 3, trees, "fmt-exh", declared=(fi + si) % 4 < 2)
                c["var"] = {"fmtU": [[l for (i, l) in chosen if i == k] for k in range(len(ops))],
                            "zU": [l for (i, l) in chosen if i == "z"]}
                yield c
                if nv == 1:             # the same with free fibers carrying their own rank attributes
                    c2 = mk_case(nv, ops, out, order, [], style, 3, trees, "fmt-exh")
                    c2["var"] = dict(c["var"], bare=True)
                    yield c2
    # the same operand objects used twice (an earlier run, or a second accumulation into the same output)
    for ia, a in enumerate(small):
        for ib, b in enumerate(small):
            for si, style in enumerate(("and", "lf", "lff", "tf")):
                for out in ([], [0]):
                    c = mk_case(1, [[0], [0]], out, [0], [], style, 2, [a, b], "reuse-exh")
                    c["var"] = {"reps": 2} if (ia + ib + si) % 2 else {"warm": True}
                    yield c
    # NON-INTEGRAL values: the operands hold v/4 (exact dyadic floats); a k-operand expression is
    # multilinear, so result * 4**k must be the integer result on the values v (partial sums like 0.25, 0.75)
    qf = list(H.all_leaf_fibers(2, [1, 3]))
    for ia, a in enumerate(qf):
        for ib, b in enumerate(qf):
            for si, style in enumerate(("and", "tf", "lf", "lff")):
                for out in ([], [0]):
                    c = mk_case(1, [[0], [0]], out, [0], [], style, 2, [a, b], "frac-exh")
                    c["var"] = {"vkind": "quarter"}
                    yield c
    qA = [[[0, [[0, 1], [1, 2]]], [1, [[1, 3]]], [2, [[0, 1], [2, 1]]]],
          [[0, [[2, 1]]], [2, [[0, 2], [1, 1], [2, 3]]]]]
    qb = [[[0, 1], [1, 3], [2, 2]], [[1, 1], [2, -3]]]
    for A in qA:
        for b in qb:
            for order, tiles in (([0, 2], []), ([2, 0], []), ([3, 0, 2], [[1, 1]]), ([3, 0, 2], [[1, 2]]),
                                 ([0, 3, 2], [[1, 3]]), ([1, 2, 0], [[0, 2]])):
                for style in ("and", "lf"):
                    c = mk_case(2, [[0, 1], [1]], [0], order, tiles, style, 3, [A, b], "frac-exh")
                    c["var"] = {"vkind": "quarter"}
                    yield c
                    c = mk_case(2, [[0, 1], [1]], [], order, tiles, style, 3, [A, b], "frac-exh")
                    c["var"] = {"vkind": "quarter", "reps": 2}
                    yield c
    # the other spelling of a uniform tiling: `T / parts` (a partition COUNT) on a rank shared by two operands
    # of the same declared shape; every 0/1 vector over 4 coordinates (incl. empty trailing coordinates)
    dA = [[[0, [[0, 1], [3, 2]]], [1, [[1, 1], [2, -1], [3, 1]]], [2, [[0, 2]]]],
          [[0, [[2, 1]]], [2, [[0, 1], [1, 1]]]]]
    for ib, b in enumerate(rows4):
        for ai, A in enumerate(dA):
            for parts in range(1, 6):
                step = (4 + parts - 1) // parts
                order = [[3, 2, 0], [3, 0, 2], [0, 3, 2]][(ib + parts) % 3]
                style = ("and", "lf", "tf", "lff")[(ib + ai + parts) % 4]
                c = mk_case(2, [[0, 1], [1]], [0], order, [[1, step]], style, 4, [A, [[k, v + k] for k, v in b]], "tdiv-exh")
                yield _to_tdiv(c, [[1, parts]])
    # "swizzled to match" spelled with swapRanks, the tiling applied AFTER the swap to the new upper or the
    # new lower rank: NON-SQUARE 2 x 4 operands, every pair of 0/1 rows (the last column need not hold the largest row)
    si = 0
    for i0, r0 in enumerate(rows4):
        for i1, r1 in enumerate(rows4):
            if not r0 and not r1:
                continue
            si += 1
            if quick and si % 2:
                continue
            A = [[m, r] for m, r in enumerate((r0, r1)) if r]
            b4 = [[k, k + 1] for k in range(4)]
            for order, tiles in (([3, 2, 0], [[1, 1 + si % 4]]), ([3, 0, 2], [[1, 1 + (si // 2) % 4]]),
                                 ([2, 1, 0], [[0, 1 + si % 2]]), ([1, 2, 0], [[0, 1 + si % 3]]), ([2, 0], [])):
                c = mk_case(2, [[0, 1], [1]], [0], order, tiles, ("and", "lf", "tf")[si % 3], 4, [A, b4], "swap-exh",
                            declared=si % 4 != 1)
                yield _with_swaps(c)
    # depth-1 swap of a 3-rank operand: Y_i = sum_jk T_ijk U_j V_k in loop order i, k, j with k or j tiled
    for rep in range(6 if quick else 40):
        T3 = _rand_tree(fixed, 3, 3, 0.3)
        u, w = _rand_tree(fixed, 1, 3, 0.2), _rand_tree(fixed, 1, 3, 0.2)
        for order, tiles in (([0, 4, 2], []), ([0, 5, 4, 2], [[2, 1 + rep % 3]]), ([0, 4, 3, 2], [[1, 1 + rep % 3]]),
                             ([4, 0, 2], []), ([5, 4, 2, 0], [[2, 2]])):
            c = mk_case(3, [[0, 1, 2], [1], [2]], [0], order, tiles, ("and", "lf", "andr")[rep % 3], 3, [T3, u, w],
                        "swap-exh", declared=rep % 3 != 0)
            yield _with_swaps(c)
    # pipelines: T = A x B (kernel 1, any style), then Y_m = sum_n T_mn C_n on the OUTPUT OBJECT of kernel 1,
    # untiled and with N tiled; B lacks a k-row the leader A has (also the last one visited)
    pB = [[[0, [[0, 1], [2, 2]]], [2, [[1, 1]]]], [[0, [[1, 1]]], [1, [[0, 2], [2, 1]]]]]
    pC = [[0, 1], [1, 2], [2, 3]]
    stage2 = [([0, 2], []), ([3, 0, 2], [[1, 1]]), ([0, 3, 2], [[1, 2]]), ([3, 2, 0], [[1, 3]]), ([1, 0, 2], [[0, 2]])]
    pi = 0
    for r0 in rows:
        for r1 in rows:
            A = [[m, r] for m, r in enumerate((r0, r1)) if r]
            for B in pB:
                for s1 in ("lf", "and", "lff", "tf"):
                    for (o2, t2) in stage2:
                        pi += 1
                        if quick and pi % 3:
                            continue
                        c = mk_case(3, [[0, 1], [1, 2]], [0, 2], [0, 2, 4], [], s1, 3, [A, B], "pipe-exh",
                                    declared=pi % 8 < 6)
                        yield mk_then(c, 2, [[0, 1], [1]], [0], o2, t2, ("and", "lf", "lff")[(pi // 3) % 3], [pC])
    # --- 3. named kernels: all loop orders, every tiling of one variable with every step, all placements
    rng = random.Random(seed)
    reps = 2 if quick else 30
    for name, (nv, ops, out) in NAMED.items():
        for rep in range(reps):
            n = rng.choice([2, 3, 4])
            for tv in [None] + list(range(nv)):
                steps = [None] if tv is None else list(range(1, n + 2))
                for step in steps:
                    tiles = [] if tv is None else [[tv, step]]
                    lv = loop_vars(nv, tiles)
                    orders = list(itertools.permutations(lv))
                    if len(orders) > 6:
                        orders = rng.sample(orders, 6 if quick else 12)
                    for order in orders:
                        trees = [_rand_tree(rng, len(r), n) for r in ops]
                        if rng.random() < 0.08:
                            trees[rng.randrange(len(trees))] = []
                        c = mk_case(nv, [_perm(rng, r) for r in ops], out, order, tiles,
                                    rng.choice(STYLES), n, trees, name, declared=rng.random() < 0.5)
                        if rng.random() < 0.12 and nv <= 2:
                            c = _sparse_coords(c)
                            if c["tiles"]:
                                c["tiles"] = [[c["tiles"][0][0], rng.choice([1, 2, 9, 10, 11, 50, 101])]]
                        if c["tiles"] and rng.random() < 0.25:
                            c = _to_tdiv(c, [[c["tiles"][0][0], rng.randrange(1, n + 2)]])
                        yield _widen(rng, c)
    # --- 4. random programs: random expression, order, tiling of any subset, style
    nrand = 2500 if quick else 250000
    for i in range(nrand):
        nv, ops, out = rng.choice(exprs)
        n = rng.choice([2, 3, 3, 4, 5]) if nv < 3 else rng.choice([2, 3, 3, 4])
        tiles = [[v, rng.randrange(1, n + 2)] for v in range(nv) if rng.random() < 0.3]
        order = _perm(rng, loop_vars(nv, tiles))
        trees = [_rand_tree(rng, len(r), n) for r in ops]
        r = rng.random()
        if r < 0.05:
            trees[rng.randrange(len(trees))] = []
        c = mk_case(nv, [_perm(rng, r) for r in ops], out, order, tiles, rng.choice(STYLES), n, trees, "random",
                    declared=rng.random() < 0.5)
        if rng.random() < 0.1 and nv <= 2:
            c = _sparse_coords(c)
            c["tiles"] = [[v, rng.choice([1, 2, 9, 10, 11, 50, 101])] for v, _ in c["tiles"]]
        if c["tiles"] and rng.random() < 0.25:
            c = _to_tdiv(c, [[v, rng.randrange(1, n + 2)] for v, _ in c["tiles"] if rng.random() < 0.7])
        tv = set(v for v, _ in c["tiles"])
        if rng.random() < 0.25:
            c = _with_swaps(c)
        if c["out"] and not (tv & set(c["out"])) and rng.random() < 0.12:
            yield _rand_then(rng, c)        # the output object feeds a second kernel
            continue
        yield _widen(rng, c)


# ---------------------------------------------------------------------------------------
# rendering a program
# ---------------------------------------------------------------------------------------

def plan(case):
    """per operand: the rank list after tiling + swizzling (loop-variable numbers), the output's too"""
    tiles = dict((v, s) for v, s in case["tiles"])
    order = case["order"]
    opranks = []
    for op in case["ops"]:
        have = set()
        for v in op["ranks"]:
            have.add(2 * v)
            if v in tiles:
                have.add(2 * v + 1)
        opranks.append([l for l in order if l in have])
    zhave = set()
    for v in case["out"]:
        zhave.add(2 * v)
        if v in tiles:
            zhave.add(2 * v + 1)
    zranks = [l for l in order if l in zhave]
    return opranks, zranks


def render(case):
    """Python source of the kernel `def kernel(Z, A0, A1, ...)`"""
    opranks, zranks = plan(case)
    style = case["style"]
    k = len(opranks)
    pos = [0] * k                   # how many ranks of operand i have been consumed
    zpos = 0
    lines = ["def kernel(Z, " + ", ".join(f"A{i}" for i in range(k)) + "):",
             "    z_0 = Z.getRoot()"]
    for i in range(k):
        lines.append(f"    a{i}_0 = A{i}.getRoot()")
    hoist_at = len(lines)           # hoisted (loop-invariant) intersections are built here
    ind = "    "

    def left_nest(names):
        e = names[0]
        for x in names[1:]:
            e = f"({e} & {x})"
        return e

    def left_pat(names):
        e = names[0]
        for x in names[1:]:
            e = f"({e}, {x})"
        return e

    for l in case["order"]:
        parts = [i for i in range(k) if pos[i] < len(opranks[i]) and opranks[i][pos[i]] == l]
        cur = [f"a{i}_{pos[i]}" for i in parts]
        nxt = [f"a{i}_{pos[i] + 1}" for i in parts]
        if len(parts) == 1:
            src, pat = cur[0], nxt[0]
        elif style == "and" or (style in NEST and len(parts) == 2):
            src, pat = left_nest(cur), left_pat(nxt)
        elif style in NEST:
            # a & (b & c): the right operand is a lazy fiber; "andh" builds it once, outside all loops,
            # when its operands are still the root fibers (loop-invariant)
            right, rpat = left_nest(cur[1:]), left_pat(nxt[1:])
            if style == "andi":         # the lazy right operand comes from Fiber.intersection
                right, rpat = "Fiber.intersection(" + ", ".join(cur[1:]) + ")", "(" + ", ".join(nxt[1:]) + ")"
            if style == "andh" and all(pos[i] == 0 for i in parts[1:]):
                lines.insert(hoist_at, f"    h{l} = {right}")
                hoist_at += 1
                right = f"h{l}"
            src, pat = f"({cur[0]} & {right})", f"({nxt[0]}, {rpat})"
        else:
            st = "two-finger" if style == "tf" else "leader-follower"
            src = "Fiber.intersection(" + ", ".join(cur) + f', style="{st}")'
            pat = "(" + ", ".join(nxt) + ")"
        zin = zpos < len(zranks) and zranks[zpos] == l
        if zin:
            lines.append(f"{ind}for c{l}, (z_{zpos + 1}, {pat}) in z_{zpos} << {src}:")
            zpos += 1
        else:
            lines.append(f"{ind}for c{l}, {pat} in {src}:")
        ind += "    "
        if style == "lff" and len(parts) > 1:
            cond = " or ".join(f"Payload.isEmpty({x})" for x in nxt[1:])
            lines.append(f"{ind}if {cond}:")
            lines.append(f"{ind}    continue")
        for i in parts:
            pos[i] += 1
    prod = " * ".join(f"a{i}_{pos[i]}" for i in range(k))
    lines.append(f"{ind}z_{zpos} += {prod}")
    return "\n".join(lines) + "\n"


def well_formed(case):
    """every loop variable occurs in some operand (else the program cannot be written)"""
    opranks, zranks = plan(case)
    used = set(l for r in opranks for l in r)
    return all(l in used for l in case["order"]) and len(set(case["order"])) == len(case["order"])


def _conv(v, vk):
    """value kinds: the same integer written as a float (exact) or, for 0/1, as a bool"""
    if vk == "float":
        return float(v)
    if vk == "quarter":         # non-integral values, exact in binary floating point: v / 4
        return v / 4.0
    if vk == "bool" and v in (0, 1):
        return bool(v)
    return v


def _build(tree, depth, vk, fdef):
    F = H.ft().Fiber
    if depth == 1:
        return F([c for c, _ in tree], [_conv(v, vk) for _, v in tree], default=fdef)
    return F([c for c, _ in tree], [_build(s, depth - 1, vk, fdef) for _, s in tree], default=fdef)


def _canon(snap, scale=1):
    """leaf values times `scale`; integral floats (results of exact float arithmetic) read as the
    integers they are.  With operand values v/4 a k-operand expression, being multilinear, yields
    (integer result on the values v) / 4**k exactly: scale = 4**k for the output, 4 for an operand."""
    if isinstance(snap, list):          # a fiber: [[coordinate, payload], ...]
        return [[e[0], _canon(e[1], scale)] for e in snap]
    if isinstance(snap, dict) and set(snap) == {"float"}:
        x = float.fromhex(snap["float"]) * scale
        return int(x) if x == int(x) else {"float": x.hex()}
    if isinstance(snap, bool):
        return int(snap) * scale
    if isinstance(snap, int):
        return snap * scale
    return snap


class _Root:
    """an operand that is a bare fiber (no tensor): the program's `A.getRoot()` returns it"""
    def __init__(self, fiber):
        self.fiber = fiber

    def getRoot(self):
        return self.fiber


def prepare(case, prev=None):
    """build, tile and swizzle the operand tensors with the real library; make the output tensor.
    An operand marked "prev" is not built: it IS the tensor object `prev` (an earlier kernel's output)."""
    ft = H.ft()
    n = case["n"]
    tiles = case["tiles"]
    tdiv = dict((v, p) for v, p in case.get("tdiv") or [])      # tilings spelled `T / parts`
    var = case.get("var") or {}
    vk, fdef = var.get("vkind", "int"), var.get("fdefault", 0)
    opranks, zranks = plan(case)
    tensors = []
    for i, (op, target) in enumerate(zip(case["ops"], opranks)):
        d = len(op["ranks"])
        f = None if op.get("prev") else _build(op["t"], d, vk, fdef)
        fmtU = (var.get("fmtU") or [[]] * len(opranks))[i]
        if var.get("bare") and f is not None:             # free fiber carrying its own rank attributes
            if target and target[0] in fmtU:
                f.getRankAttrs().setFormat("U")
                f.getRankAttrs().setShape(n)
            tensors.append(_Root(f))
            continue
        if op.get("prev"):
            T = prev
        elif case.get("declared", True):
            sh = (var.get("shapes") or [n] * len(opranks))[i]
            T = ft.Tensor.fromFiber(rank_ids=[str(v) for v in op["ranks"]], fiber=f, shape=[sh] * d, default=0)
        else:       # no authoritative shape: the rank shapes (hence the active ranges) are estimated
            T = ft.Tensor.fromFiber(rank_ids=[str(v) for v in op["ranks"]], fiber=f, default=0)
        for dpt in op.get("swaps") or []:       # re-ordering spelled with swapRanks, before the tiling
            T = T.swapRanks(depth=dpt)
        for v, step in tiles:
            if v in op["ranks"] and v not in tdiv:
                T = T.splitUniform(step, rankid=str(v))
        for v, parts in tdiv.items():
            if v in op["ranks"]:        # `/` splits the top rank: bring the rank up first
                ids = T.getRankIds()
                T = T.swizzleRanks([str(v)] + [x for x in ids if x != str(v)])
                T = T / parts
        T = T.swizzleRanks([lname(l, tiles) for l in target])
        for l in target:
            if l in fmtU:
                T.setFormat(lname(l, tiles), "U")
        tensors.append(T)

    def mkz():
        Z = ft.Tensor(rank_ids=[lname(l, tiles) for l in zranks], default=0)
        for l in zranks:
            if l in (var.get("zU") or []):
                Z.setFormat(lname(l, tiles), "U")
        return Z
    return mkz, tensors


def run(case):
    ft = H.ft()
    opranks, zranks = plan(case)
    case["opranks"], case["zranks"] = opranks, zranks
    src = render(case)             # (not stored in the case: `render(case)` reproduces the program text)
    var = case.get("var") or {}
    side = {}
    try:
        mkz, tensors = prepare(case)
        pre = [H.snapshot(T.getRoot()) for T in tensors]
        env = {"Fiber": ft.Fiber, "Payload": ft.Payload}
        exec(compile(src, "<kernel>", "exec"), env)
        if var.get("warm"):             # the same operand objects were already used by an earlier run
            env["kernel"](mkz(), *tensors)
        Z = mkz()
        for _ in range(var.get("reps", 1)):     # reps = 2: accumulate a second time into the same output
            env["kernel"](Z, *tensors)
        root = Z.getRoot()
        q = var.get("vkind") == "quarter"
        case["impl"] = {"z": _canon(H.snapshot(root), 4 ** len(tensors) if q else 1),
                        "ops": [_canon(x, 4 if q else 1) for x in pre]}
        side["operands_unchanged"] = pre == [H.snapshot(T.getRoot()) for T in tensors]
        if case.get("then"):            # pipeline: the output OBJECT of this kernel is operand 0 of the next
            t2 = case["then"]
            z1 = H.snapshot(root)
            Z.setRankIds([str(v) for v in t2["ops"][0]["ranks"]])
            case["impl"]["then"] = {"z": None, "ops": []}
            mkz2, tensors2 = prepare(t2, prev=Z)
            pre2 = [H.snapshot(T.getRoot()) for T in tensors2]
            env2 = {"Fiber": ft.Fiber, "Payload": ft.Payload}
            exec(compile(render(t2), "<kernel2>", "exec"), env2)
            Z2 = mkz2()
            env2["kernel"](Z2, *tensors2)
            case["impl"]["then"] = {"z": _canon(H.snapshot(Z2.getRoot())), "ops": [_canon(x) for x in pre2]}
            side["first_output_unchanged"] = z1 == H.snapshot(Z.getRoot())
    except Exception as e:      # a crash of a legal program is an observation
        if not (case.get("then") and isinstance(case.get("impl"), dict) and "then" in case["impl"]):
            case["impl"] = {"z": None, "ops": []}
        case["implerr"] = H.err_class(e)
        side["no_exception:" + H.err_class(e)] = False
    case["side"] = side
    return case


# ---------------------------------------------------------------------------------------
# debugging aids (NOT part of the decision: the spec is evaluated by the Lean driver)
# ---------------------------------------------------------------------------------------

def py_val(tree, point):
    for c in point:
        nxt = None
        for cc, s in tree:
            if cc == c:
                nxt = s
        if nxt is None:
            return 0
        tree = nxt
    return tree


def py_dense(case):
    n, nv = case["n"], case["nvars"]
    tiles = dict((v, s) for v, s in case["tiles"])
    _, zranks = plan(case)
    acc = {}
    for sigma in itertools.product(range(n), repeat=nv):
        p = 1
        for op in case["ops"]:
            p *= py_val(op["t"], [sigma[v] for v in op["ranks"]])
        pt = tuple((sigma[l // 2] // tiles[l // 2] * tiles[l // 2]) if l % 2 else sigma[l // 2] for l in zranks)
        acc[pt] = acc.get(pt, 0) + p
    return sorted((list(k), v) for k, v in acc.items() if v != 0)


def py_content(tree, depth):
    if depth == 0:
        return [([], tree)] if tree != 0 else []
    out = []
    for c, s in tree:
        for p, v in py_content(s, depth - 1):
            out.append(([c] + p, v))
    return out


# ---------------------------------------------------------------------------------------
# classification
# ---------------------------------------------------------------------------------------

def nontrivial(case, verdict):
    t = set(verdict.get("tags", []))
    return bool(t & {"nonzero", "cancel"}) and bool(t & {"coiter2", "coiter3", "populate"})


def extra_evidence(results):
    """input distribution: distinct programs (expression, loop order, tiling, style), per generator block"""
    progs, blocks, exprs = set(), {}, set()
    for c, _ in results:
        e = (c["nvars"], tuple(tuple(sorted(o["ranks"])) for o in c["ops"]), tuple(c["out"]))
        exprs.add(e)
        progs.add((e, tuple(c["order"]), tuple(tuple(t) for t in c["tiles"]), c["style"]))
        b = c["tag"] if c["tag"] in ("shape", "dot-exh", "ew-exh", "cancel-exh", "nest-exh", "hoist-exh", "estim-exh", "fmt-exh", "reuse-exh", "frac-exh", "tdiv-exh", "pipe-exh", "swap-exh", "random") else "named"
        blocks[b] = blocks.get(b, 0) + 1
    return {"distinct_expressions": len(exprs), "distinct_programs": len(progs), "generator_blocks": blocks}


def signature(case, verdict, failed):
    kinds = "/".join(sorted(f.split(":")[0] if f.startswith("no_exception") else f for f in failed))
    err = case.get("implerr", "")
    tiled = "tiled" if case["tiles"] else "untiled"
    pipe = ":pipeline" if case.get("then") else ""
    return f"{case['style']}:{tiled}{pipe}:{kinds}{':' + err if err else ''}"


def _tree_shrinks(t):
    if not isinstance(t, list):
        return
    for i in range(len(t)):
        yield t[:i] + t[i + 1:]
    for i, e in enumerate(t):
        if isinstance(e, list) and len(e) == 2:
            c, sub = e
            if isinstance(sub, list):
                for s2 in _tree_shrinks(sub):
                    yield t[:i] + [[c, s2]] + t[i + 1:]
            elif sub not in (0, 1):
                yield t[:i] + [[c, 1]] + t[i + 1:]


def shrink_candidates(case):
    # smaller operand trees first, then drop the tiling
    for i, op in enumerate(case["ops"]):
        for t2 in _tree_shrinks(op["t"]):
            c = dict(case)
            c["ops"] = [dict(o) for o in case["ops"]]
            c["ops"][i]["t"] = t2
            yield c
    if case["tiles"]:
        for j in range(len(case["tiles"])):
            v = case["tiles"][j][0]
            c = dict(case)
            c["tiles"] = case["tiles"][:j] + case["tiles"][j + 1:]
            if case.get("tdiv"):
                c["tdiv"] = [x for x in case["tdiv"] if x[0] != v]
            c["order"] = [l for l in case["order"] if l != 2 * v + 1]
            yield c
