"""History engine shared by C01 (well-formedness under every history of mutators) and C02 (rank
bookkeeping).  Operations are generated on the fly from the *current* real state (deterministically
from the case's seed) and every step is recorded as {op, before, after, outcome, mirror} so that the
Lean driver can check each step independently: model_step(before, op) == after, RawWF(after),
rejected-for-order => after == before.
"""
import random
from harness import common as H

POOL = (1, 2, -3, 7, 0, 5)


def fibers_at(root, depth):
    """[(path, fiber, level)] for every Fiber in the tree, level 0 = root"""
    Fiber = H.ft().Fiber
    out = [([], root, 0)]
    i = 0
    while i < len(out):
        path, f, lvl = out[i]
        i += 1
        for c, p in zip(f.coords, f.payloads):
            if isinstance(p, Fiber):
                out.append((path + [c], p, lvl + 1))
    return out


def _bx(rng, elem=False):
    """how a scalar argument is handed over: 0 plain, 1 boxed, 2 boxed twice (Payload(Payload(v)), the copy
    idiom), 3 an element (CoordPayload) as in-place addend; the stored leaf must be singly boxed regardless"""
    return rng.choice([0, 0, 0, 1, 2, 3, 4] if elem else [0, 0, 0, 1, 2, 4])


class IntSub(int):
    """a value whose type is a proper subclass of a boxable type (as an IntEnum member or a numpy scalar is):
    it must be boxed like any int"""


def _box(v, bx, add=False):
    ft = H.ft()
    if not isinstance(v, int) or not bx:
        return v
    if bx == 4:
        return IntSub(v)
    if bx == 1:
        return ft.Payload(v)
    if bx == 3:
        return ft.CoordPayload(0, v) if add else ft.Payload(v)
    return ft.Payload(ft.Payload(v))


STRUCTURAL = ["append", "extend", "setitem", "updcoords", "clear", "updpayloads"]


def gen_op(rng, root, depth, dflt, n, alphabet, structural=False):
    """pick one operation applicable to the current state; depth = number of ranks.
    Fiber-valued arguments of append / extend / __setitem__ enter the tree as *unowned* fibers (the
    library documents that they are not copied); an empty unowned fiber carries no information about
    its level, so operations that must create defaults below it are meaningless.  Histories are
    therefore of two kinds: `structural` ones use fiber-valued arguments at every level together with
    operations that never create defaults; general ones use every operation but give append / extend /
    __setitem__ leaf-level targets only."""
    fl = fibers_at(root, depth)
    k = rng.choice(alphabet)
    if not structural and k in ("append", "extend", "setitem"):
        fl = [x for x in fl if depth - x[2] == 1] or fl
        if depth - fl[0][2] != 1:
            k = "ref"
    path, f, lvl = rng.choice(fl)
    sub_depth = depth - lvl          # depth of the fiber `f` (1 = leaf fiber)
    c = rng.randrange(-1, n + 2)
    if k == "ref":
        ln = rng.randrange(1, depth + 1)
        return {"k": "ref", "p": [rng.randrange(-1, n + 1) for _ in range(ln)]}
    if k == "posref":
        return {"k": "posref", "at": path, "c": c}
    if k == "refsp":
        # reference insertion with a search-start shortcut; only legal shortcuts (the convention
        # getPayload asserts: start_pos == 0 or coords[start_pos] <= coord)
        legal = [0] + [i for i in range(1, len(f.coords)) if f.coords[i] <= c]
        return {"k": "refsp", "at": path, "c": c, "sp": rng.choice(legal), "pos": rng.random() < 0.5}
    if k == "get":
        ln = rng.randrange(1, depth + 1)
        return {"k": "get", "p": [rng.randrange(-1, n + 1) for _ in range(ln)]}
    if k == "query":
        return {"k": "query", "at": path, "q": rng.choice(["eq", "count", "isempty", "iter", "uncompress", "add", "or", "iteruncompressed", "itershape",
                                                                  "iteractive", "getshape", "getactive", "str", "maxcoord"])}
    if k == "append":
        # mostly legal (beyond the last coordinate), sometimes order-violating
        last = f.coords[-1] if f.coords else -1
        cc = last + rng.randrange(1, 3) if rng.random() < 0.7 else rng.randrange(-1, last + 1) if last >= 0 else 0
        v = rng.choice(POOL) if sub_depth == 1 else H.gen_tree(rng, sub_depth - 1, n, POOL, dflt)
        return {"k": "append", "at": path, "c": cc, "v": v, "bx": _bx(rng)}
    if k == "extend":
        last = f.coords[-1] if f.coords else -1
        base = last + 1 if rng.random() < 0.7 else max(0, last - 1)
        t = [[cc + base, p] for cc, p in H.gen_tree(rng, sub_depth, 3, POOL, dflt)]
        return {"k": "extend", "at": path, "f": t}
    if k == "setitem":
        pos = rng.randrange(0, len(f.coords) + 1) if f.coords else 0
        cc = None if rng.random() < 0.4 else c
        if rng.random() < 0.3:
            v = None
        else:
            v = rng.choice(POOL) if sub_depth == 1 else H.gen_tree(rng, sub_depth - 1, n, POOL, dflt)
        return {"k": "setitem", "at": path, "pos": pos, "c": cc, "v": v, "bx": _bx(rng)}
    if k == "iadd" and sub_depth == 1:
        return {"k": "iadd", "at": path, "s": rng.choice([1, -1, 0, 2])}
    if k == "imul" and sub_depth == 1:
        return {"k": "imul", "at": path, "s": rng.choice([2, -1, 0, 1])}
    if k == "iaddf" and sub_depth == 1:
        return {"k": "iaddf", "at": path, "f": H.gen_tree(rng, 1, n, POOL, dflt)}
    if k == "iaddf" and sub_depth >= 2:
        # `x += y` on fibers of fibers is the nested populate loop whose body adds at the leaves: it is shown to the
        # model as that loop (no action table) and executed through the operator
        return {"k": "populate", "at": path, "a": H.gen_tree(rng, sub_depth, n, POOL, dflt), "acts": [], "via": "iadd"}
    if k == "imulf" and sub_depth == 1:
        return {"k": "imulf", "at": path, "f": H.gen_tree(rng, 1, n, POOL, dflt)}
    if k == "assignf":
        return {"k": "assignf", "at": path, "f": H.gen_tree(rng, sub_depth, n, POOL, dflt)}
    if k == "populate":
        a = H.gen_tree(rng, sub_depth, n, POOL, dflt)
        acts = []

        def leafpts(t, d, pre):
            for cc, p in t:
                if d == 1:
                    yield pre + [cc]
                else:
                    yield from leafpts(p, d - 1, pre + [cc])
        for p in leafpts(a, sub_depth, []):
            if rng.random() < 0.7:
                acts.append([p] + list(rng.choice([("leave", 0), ("assign", 5), ("add", 1), ("reset", 0), ("assign", dflt)])))

        def innerpts(t, d, pre):
            if d <= 1:
                return
            for cc, p in t:
                yield pre + [cc]
                yield from innerpts(p, d - 1, pre + [cc])
        for p in innerpts(a, sub_depth, []):
            r = rng.random()
            if r < 0.1:
                acts.append([p, "skip", 0])
            elif r < 0.3:
                acts.append([p, "touch", rng.randrange(0, n + 1)])
        return {"k": "populate", "at": path, "a": a, "acts": acts, "bx": _bx(rng, True)}
    if k == "denseref":
        s = rng.randrange(0, n)
        e = rng.randrange(s, n + 2)
        writes = [[cc, rng.choice(POOL)] for cc in range(s, e) if rng.random() < 0.4] if sub_depth == 1 else []
        step = rng.choice([1, 1, 2, -1, -2])
        if step < 0:
            # a descending walk: range(e - 1, s - 1, step) visits coordinates below elements it has just created
            s, e = e - 1, s - 1
        return {"k": "denseref", "at": path, "s": s, "e": e, "step": step, "w": writes, "bx": _bx(rng)}
    if k == "updcoords":
        return {"k": "updcoords", "at": path, "mul": rng.choice([1, 2, -1, -2]), "add": rng.choice([0, 1, -3, 4])}
    if k == "updpayloads" and sub_depth == 1:
        return {"k": "updpayloads", "at": path, "add": rng.choice([0, 1, -1]), "box": rng.random() < 0.5}
    if k == "clear":
        return {"k": "clear", "at": path}
    if structural:
        return {"k": "updcoords", "at": path, "mul": 1, "add": rng.choice([0, 1])}
    return {"k": "ref", "p": [rng.randrange(-1, n + 1) for _ in range(depth)]}


def locate(root, path):
    f = root
    for c in path:
        f = f.getPayload(c)
    return f


def _val(v, sub_depth, dflt):
    """turn a JSON argument into a real payload: int or Fiber of depth sub_depth-1"""
    if isinstance(v, list):
        return H.build_fiber(v, sub_depth - 1, dflt)
    return v


def apply_op(root, depth, dflt, op):
    """apply to the REAL objects; returns the outcome class"""
    ft = H.ft()
    k = op["k"]
    try:
        if k == "ref":
            root.getPayloadRef(*op["p"])
            return "ok"
        if k == "get":
            root.getPayload(*op["p"])
            return "ok"
        f = locate(root, op["at"])
        sub_depth = depth - len(op["at"])
        if k == "query":
            q = op["q"]
            if q == "eq":
                f == f
            elif q == "count":
                f.countValues()
            elif q == "isempty":
                f.isEmpty()
            elif q == "iter":
                list(f)
            elif q == "uncompress":
                f.uncompress()
            elif q == "iteruncompressed":
                list(f.iterUncompressed())
            elif q == "itershape":
                list(f.iterShape())
            elif q == "iteractive":
                list(f.iterActive())
            elif q == "getshape":
                f.getShape(); f.getShape(all_ranks=False); f.estimateShape()
            elif q == "getactive":
                f.getActive()
            elif q == "str":
                str(f); repr(f)
            elif q == "maxcoord":
                f.maxCoord(); f.minCoord()
            elif q == "add" and sub_depth == 1:
                f + f
            elif q == "or":
                list(f | f)
            return "ok"
        if k == "refsp":
            if op["pos"]:
                f.getPositionRef(op["c"], start_pos=op["sp"])
            else:
                f.getPayloadRef(op["c"], start_pos=op["sp"])
        elif k == "posref":
            f.getPositionRef(op["c"])
        elif k == "append":
            f.append(op["c"], _box(_val(op["v"], sub_depth, dflt), op.get("bx", 0)))
        elif k == "extend":
            f.extend(H.build_fiber(op["f"], sub_depth, dflt))
        elif k == "setitem":
            v = _box(_val(op["v"], sub_depth, dflt), op.get("bx", 0)) if op["v"] is not None else None
            if op["c"] is None:
                if v is None:
                    return "ok"
                f[op["pos"]] = v
            else:
                f[op["pos"]] = ft.CoordPayload(op["c"], v)
        elif k == "iadd":
            f += op["s"]
        elif k == "imul":
            f *= op["s"]
        elif k == "iaddf":
            f += H.build_fiber(op["f"], 1, dflt)
        elif k == "imulf":
            f *= H.build_fiber(op["f"], 1, dflt)
        elif k == "assignf":
            f <<= H.build_fiber(op["f"], sub_depth, dflt)
        elif k == "populate":
            acts = {tuple(p): (code, v) for p, code, v in op["acts"]}
            a = H.build_fiber(op["a"], sub_depth, dflt)
            if op.get("via") == "iadd":
                f += a
                return "ok"

            def loop(zf, af, prefix, d):
                for c, (zr, av) in zf << af:
                    p = prefix + [c]
                    if d == 1:
                        act = acts.get(tuple(p))
                        if act is None:
                            zr += av
                        elif act[0] == "assign":
                            zr <<= _box(act[1], op.get("bx", 0))
                        elif act[0] == "add":
                            zr += _box(act[1], op.get("bx", 0), add=True)
                        elif act[0] == "reset":
                            zr <<= dflt
                    else:
                        act = acts.get(tuple(p), ("", 0))
                        if act[0] == "skip":
                            continue
                        if act[0] == "touch":
                            zr.getPositionRef(act[1])
                            continue
                        loop(zr, av, p, d - 1)
            loop(f, a, [], sub_depth)
        elif k == "denseref":
            w = dict((c, v) for c, v in op["w"])
            for c, p in f.iterRangeShapeRef(op["s"], op["e"], op["step"]):
                if c in w:
                    p <<= _box(w[c], op.get("bx", 0))
        elif k == "updcoords":
            m, a = op["mul"], op["add"]
            f.updateCoords(lambda i, c, p: m * c + a)
        elif k == "updpayloads":
            add, box = op["add"], op["box"]
            if box:
                f.updatePayloads(lambda i, c, p: ft.Payload(p.value + add))
            else:
                f.updatePayloads(lambda i, c, p: p.value + add)
        elif k == "clear":
            f.clear()
        else:
            raise ValueError(k)
        return "ok"
    except AssertionError as e:
        msg = str(e)
        if "monotonically increasing" in msg or "order" in msg.lower():
            return "rejected-order"
        return "rejected-other"
    except ft.fiber_mod.CoordinateError:
        return "rejected-order"
    except IndexError:
        return "rejected-index"
    except Exception as e:
        return "ERR:" + type(e).__name__


def run_history(case, alphabet, check_mirror):
    """case: {seed, d (ranks), dflt, t (initial tree), n, len, kind}"""
    ft = H.ft()
    depth, dflt, n = case["d"], case["dflt"], case["n"]
    if case.get("fdflt"):
        dflt = float(dflt)      # the same default as a float: other copy / boxing paths in the library
    if case.get("ndflt"):
        dflt = None             # "no empty value": insertions of a default are REJECTED and must leave no trace
    rng = random.Random(case["hseed"])
    cfg = case.get("cfg") or {}
    owned = case["kind"] == "owned"
    root = H.build_fiber(case["t"], depth, 0 if (owned and cfg.get("fib0") and not case.get("fdflt")) else dflt)
    tensor = None
    if owned:
        ids = [f"R{depth - 1 - k}" for k in range(depth)]
        tensor = ft.Tensor.fromFiber(rank_ids=ids, fiber=root, default=dflt, shape=cfg.get("shape"))
        for rid, fm in zip(ids, cfg.get("fmt", [])):
            tensor.setFormat(rid, fm)
        root = tensor.getRoot()
    steps = []
    structural = case.get("mode") == "structural"
    if structural:
        alphabet = [k for k in alphabet if k in STRUCTURAL] or STRUCTURAL
    if case.get("ndflt"):
        # without an empty value only operations that never WRITE the default are meaningful
        alphabet = [k for k in alphabet if k in ("ref", "posref", "refsp", "append", "extend", "setitem", "clear",
                                                 "updcoords", "denseref", "get", "query")] or ["ref"]
    for _ in range(case["len"]):
        op = gen_op(rng, root, depth, case["dflt"], n, alphabet, structural)
        before = H.snapshot(root)
        rb = H.rank_paths(tensor) if (check_mirror and tensor is not None) else None
        if op["k"] == "iadd":
            # `f += scalar` runs over the fiber's shape: record the extent it will use
            try:
                op["shape"] = int(locate(root, op["at"]).getShape(all_ranks=False))
            except Exception:
                pass
        outcome = apply_op(root, depth, dflt, op)
        after = H.snapshot(root)
        st = {"op": op, "before": before, "after": after, "outcome": outcome}
        if check_mirror and tensor is not None:
            st["mirror"] = H.rank_mirror(tensor)
            st["ranks_before"] = rb
            st["ranks_after"] = H.rank_paths(tensor)
        steps.append(st)
        if outcome.startswith("ERR") or not _wellformed_json(after, depth):
            break       # later steps on a broken tree say nothing new
    return steps


def _wellformed_json(t, depth):
    if depth == 0:
        return isinstance(t, int) and not isinstance(t, bool)
    if not isinstance(t, list):
        return False
    last = None
    for e in t:
        if not (isinstance(e, list) and len(e) == 2 and isinstance(e[0], int)):
            return False
        if last is not None and not last < e[0]:
            return False
        last = e[0]
        if not _wellformed_json(e[1], depth - 1):
            return False
    return True
